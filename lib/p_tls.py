"""C19 -- TLS endpoints admit only peers authenticated by the configured CA (spec/TlsAdmit).

1. TLC checks the design (TlsAdmit.tla) on the complete cross product configuration x peer credential for both code
   models: ClientAuthFix = FALSE (pinned tree; AdmittedOnlyAcceptable is expected to fail, see DESIGN section 5
   finding 6) and ClientAuthFix = TRUE (proposed/C19-clientauth.diff; everything holds).
2. TLC enumerates the cross product (TlsAdmitCases.tla, one JSON line per case, no expectations).
   A case = configuration x what happens to the CA bundle file after start-up (intact / removed) x peer credential
   (incl. peers that ship extra certificates with their leaf and a peer that speaks no TLS at all).
3. The harness executes EVERY case on EVERY transport as a real handshake plus one application byte each way
   (direct: encryption.GetServerTLSConfig / GetClientTLSConfig with crypto/tls; mux: NewMuxReceiverProvider /
   NewMuxEstablisherProvider; tcp: makeServerOptions / buildTLSTCPClient) against a raw crypto/tls peer whose
   certificates come from a run-time factory, and records what both ends saw.
4. TLC judges every record against Acceptable / WellFormed / MustRejectStartup (TlsAdmitObs.tla) and reports which of
   the two code models the tree conforms to.
"""
import json
import os
import random
import re
import subprocess
import time

from vlib import Broken, NCPU, REPO, ROOT, go_env, log

PROPS = {"C19": "exploration"}
MANIFEST = {"C19": dict(
    engine="TlsAdmit", category="exploration", design_ref="3.7",
    technique="TLA+ decision table of TLS admission (TlsAdmitRules.tla: Acceptable(cfg, cred), start-up rules, and a model "
              "of the tls.Config the code assembles) checked by TLC over the complete finite cross product configuration x "
              "peer credential; TLC enumerates the cross product, every case is executed as a real TLS handshake plus one "
              "application byte each way on the real endpoints (encryption.Get*TLSConfig with crypto/tls, mux receiver / "
              "establisher providers, makeServerOptions gRPC server, buildTLSTCPClient) against raw crypto/tls peers with "
              "run-time generated certificates; both ends' observations are judged by TLC (TlsAdmitObs.tla)",
    text="For every combination of role (server/client), verification on/off, own certificate yes/no, CA bundle (absent, "
         "CA-A, a bundle with only a leaf, a bundle without certificates), server name (unset/matching/other) and peer "
         "credential (valid leaf, self-signed, other CA, foreign CA carrying the configured CA's name, expired, wrong "
         "extended key usage, none; peers that ship more than their leaf: valid leaf + CA, foreign leaf + its own CA, "
         "self-signed certificate twice; a peer that speaks no TLS at all; client peers that present their certificate "
         "regardless of the CA hint or obey it, with no / the right / a foreign SNI; TLS 1.2 and 1.3), and for the "
         "well-formed configurations also with the CA bundle file removed after the endpoint started, a real connection "
         "is attempted on each transport, and the monitor requires: admitted only if "
         "Acceptable, acceptable peers of well-formed configurations are admitted, bundles without a CA certificate are "
         "refused at start-up. The cross product is finite and executed completely in both tiers.",
    note="Trusted: TLC, Go's crypto/tls and crypto/x509 as the raw peer, the certificate factory (classes are what their "
         "names say by construction), grpc-go as carrier for the TCP transports (application byte = one unary health "
         "check; the gRPC client's handshake is not observable separately from the call). Host system roots are assumed "
         "not to contain the run-time CAs. HTTPS-fetched CA bundles and replacing (as opposed to removing) the TLS files "
         "under a running endpoint are not covered.",
)}

SPEC = "TlsAdmit"
ENC_FILES = ["zz_verif_tlscommon_test.go", "zz_verif_tls_test.go"]
TRANSPORTS = {"direct": "encryption", "mux": "proxy", "tcp": "proxy"}
TUPLE_RE = re.compile(r'<<(\d+), "([\w-]+)">>')


def build(c, pkgdir, files, name):
    """go test -c with an overlay {file name in the package -> source path}; like Check.go_test_build, but the common
    harness file is shared between packages (injected into proxy with the package clause rewritten)."""
    repl = {os.path.join(REPO, pkgdir, fn): src for fn, src in files.items()}
    for src in repl.values():
        if not os.path.exists(src):
            raise Broken("missing harness file " + src)
    ov = os.path.join(c.scratch, "overlay-%s.json" % name)
    with open(ov, "w") as f:
        json.dump({"Replace": repl}, f)
    binpath = os.path.join(c.scratch, name + ".test")
    cmd = ["go", "test", "-c", "-o", binpath, "-overlay=" + ov, "-vet=off", "-tags", "verif", "./" + pkgdir]
    t0 = time.time()
    p = subprocess.run(cmd, cwd=REPO, env=go_env(), stdout=subprocess.PIPE, stderr=subprocess.STDOUT, text=True,
                       timeout=900)
    if p.returncode != 0 or not os.path.exists(binpath):
        raise Broken("harness does not build against the current tree:\n" + p.stdout[-3000:])
    log("built %s in %.1fs" % (binpath, time.time() - t0))
    return binpath


def build_all(c):
    enc_dir = os.path.join(ROOT, "harness", "inpkg", "encryption")
    common = os.path.join(enc_dir, ENC_FILES[0])
    src = open(common).read()
    if "\npackage encryption\n" not in src:
        raise Broken("package clause not found in " + common)
    gen = os.path.join(c.scratch, "zz_verif_tlscommon_proxy_test.go")
    with open(gen, "w") as f:
        f.write(src.replace("\npackage encryption\n", "\npackage proxy\n", 1))
    return {
        "encryption": build(c, "encryption", {fn: os.path.join(enc_dir, fn) for fn in ENC_FILES}, "tls-encryption"),
        "proxy": build(c, "proxy", {
            ENC_FILES[0]: gen,
            "zz_verif_tls_test.go": os.path.join(ROOT, "harness", "inpkg", "proxy", "zz_verif_tls_test.go")}, "tls-proxy"),
    }


def cause_of(clause, rec):
    """Cause-level label of a violation, from the attributes of the case (descriptive only; the verdict is TLC's)."""
    cfg, cred = rec["cfg"], rec["cred"]
    if clause == "admitted-unacceptable":
        if cred["class"] == "plaintext":
            return "plaintext-peer-admitted"
        if cfg["role"] == "server":
            # peer.sent: the raw client actually presented its certificate in this handshake (observed, not derived)
            return "client-cert-not-verified" if rec["peer"].get("sent") else "client-cert-not-required"
        if cfg["ca"] != "caA":
            return "server-cert-accepted-without-configured-ca"
        if cred["class"] in ("valid", "validchain"):
            return "server-name-not-checked"
        return "server-cert-not-verified"
    if clause == "rejected-acceptable":
        return "handshake-refused" if rec["startup"] == "ready" else "startup-" + rec["startup"]
    if clause == "started-without-ca":
        return "bundle-" + cfg["ca"]
    return "tls-disabled"


def parse_set(text, name):
    m = re.search(r'<<\s*"%s",\s*\{(.*?)\}\s*>>' % name, text, re.S)
    if not m:
        return None
    return [(int(g.group(1)), g.group(2)) for g in TUPLE_RE.finditer(m.group(1))]


def run(c, a):
    thorough = c.tier == "thorough"
    c.assumptions += [
        "the raw peer is Go's crypto/tls with run-time generated ECDSA P-256 certificates; credential classes are what "
        "their names say by construction of the factory",
        "the host's system root pool does not contain the run-time CAs (configuration ca = none on the client role)",
        "TCP transports: the application byte each way is one unary gRPC health check; the gRPC client's handshake "
        "result is observed only through the call",
        "CA bundles are read from files (https:// bundles are not exercised); of what can happen to the files under a "
        "running endpoint only the removal of the CA bundle is exercised (not key removal, not replacement)",
    ]
    # ---- 1. design, 2. the cross product, and the harness builds: independent of each other, run side by side (each TLC
    # run is a JVM start; on a loaded machine they dominate the wall time)
    base = []

    def on_case(line):
        try:
            d = json.loads(line)
            if isinstance(d, str):
                d = json.loads(d)
        except ValueError:
            return
        if isinstance(d, dict) and "cfg" in d and "cred" in d:
            base.append(d)
    from concurrent.futures import ThreadPoolExecutor
    with ThreadPoolExecutor(max_workers=4) as ex:
        f_rp = ex.submit(c.tlc, SPEC, "TlsAdmit", "pinned_admit.cfg", workers=1, timeout=900, name="design-pinned-admit")
        f_rf = ex.submit(c.tlc, SPEC, "TlsAdmit", "fixed.cfg", workers=1, timeout=900, name="design-fixed")
        f_cases = ex.submit(c.tlc, SPEC, "TlsAdmitCases", "cases.cfg", workers=1, timeout=900, line_cb=on_case, name="cases")
        f_bins = ex.submit(build_all, c)
        rp, rf = f_rp.result(), f_rf.result()
        f_cases.result()
        bins = f_bins.result()
    if not rp.violated and not rp.ok:
        raise Broken("TLC did not complete on pinned_admit.cfg: " + rp.error_text[-600:])
    if rp.violated:
        c.notes.append("design-level counterexample with ClientAuthFix = FALSE (code model of the tree before commit "
                       "cdab740): %s" % rp.violated)
    if rf.violated or not rf.ok:
        raise Broken("design (ClientAuthFix = TRUE) does not hold: %s %s" % (rf.violated, rf.error_text[-600:]))
    if len(base) < 1000:
        raise Broken("cross product not enumerated (%d cases)" % len(base))
    if a.replay:
        rp_obj = json.load(open(a.replay))
        base = [dict(cfg=rp_obj["case"]["cfg"], cred=rp_obj["case"]["cred"], after=rp_obj["case"].get("after", "intact"))]
        only = [rp_obj["case"]["transport"]]
    else:
        only = sorted(TRANSPORTS)
    reps = 4 if thorough and not a.replay else 1
    cases = []
    for rep in range(reps):
        for tr in only:
            for d in base:
                cases.append(dict(id=len(cases) + 1, transport=tr, rep=rep, cfg=d["cfg"], cred=d["cred"],
                                  after=d.get("after", "intact")))
    # ---- 3. execute
    rnd = random.Random(c.seed)
    inputs, plan = [], []
    for pkg in sorted(set(TRANSPORTS.values())):
        mine = [k for k in cases if TRANSPORTS[k["transport"]] == pkg]
        if not mine:
            continue
        rnd.shuffle(mine)          # execution order / worker assignment vary with the seed
        nshard = max(1, min(NCPU // 2, len(mine) // 3000)) if thorough else 1
        for i in range(nshard):
            p = os.path.join(c.scratch, "tls-in-%s-%d.ndjson" % (pkg, i))
            with open(p, "w") as f:
                for k in mine[i::nshard]:
                    f.write(json.dumps(k) + "\n")
            plan.append((pkg, p))
    recs = {}
    for pkg in sorted(set(p for p, _ in plan)):
        files = [p for q, p in plan if q == pkg]
        res = c.run_shards(bins[pkg], "^TestVerifTls$", files, os.path.join(c.scratch, "tls-out-" + pkg), timeout=600,
                           cwd=os.path.join(REPO, pkg), maxpar=2)
        for rc, out, outp in res:
            if rc != 0 or not os.path.exists(outp):
                raise Broken("harness shard failed rc=%s: %s" % (rc, out[-1500:]))
            for line in open(outp):
                e = json.loads(line)
                recs[e["id"]] = e
    if len(recs) != len(cases):
        raise Broken("%d cases given, %d records returned" % (len(cases), len(recs)))
    events = [recs[k["id"]] for k in cases]
    noted = [e for e in events if e.get("note")]
    if noted:
        raise Broken("%d cases could not be executed, e.g. %s" % (len(noted), json.dumps(noted[0])[:600]))
    # ---- 4. judge
    trace = "".join(json.dumps(e) + "\n" for e in events)
    ro = c.tlc(SPEC, "TlsAdmitObs", "obs.cfg", workers=1, timeout=900, files={"trace.ndjson": trace}, name="obs")
    text = open(ro.out).read()
    viol, book = parse_set(text, "OBS_VIOLATIONS"), parse_set(text, "OBS_BOOK")
    m = re.search(r'<<"OBS_TRACE_LEN", (\d+)>>', text)
    if viol is None or book is None or not ro.ok or not m or int(m.group(1)) != len(events):
        raise Broken("TlsAdmitObs did not report: " + ro.error_text[-1200:])
    bad = [(ln, w) for ln, w in book if w in ("malformed", "inconsistent")]
    if bad:
        raise Broken("%d records are malformed or the two ends disagree about the byte exchange, e.g. %s"
                     % (len(bad), json.dumps(events[bad[0][0] - 1])[:600]))
    off_pinned = sorted(ln for ln, w in book if w == "pinned")
    off_fixed = sorted(ln for ln, w in book if w == "fixed")
    conforms = "pinned" if not off_pinned else ("fixed" if not off_fixed else "neither")
    groups = {}
    for ln, clause in viol:
        e = events[ln - 1]
        sig = {"module": "TlsAdmit", "clause": clause, "role": e["cfg"]["role"], "cause": cause_of(clause, e),
               "cred": e["cred"]["class"] if clause in ("admitted-unacceptable", "rejected-acceptable") else "-"}
        groups.setdefault(json.dumps(sig, sort_keys=True), (sig, []))[1].append(e)
    new, sigs = 0, []
    for key in sorted(groups):
        sig, evs = groups[key]
        e = min(evs, key=lambda x: (x["transport"], x["rep"], x["after"] != "intact", json.dumps(x["cfg"], sort_keys=True),
                                    json.dumps(x["cred"], sort_keys=True)))
        what = ("%s (%s): %s endpoint, cfg %s, files after start %s, peer %s -> startup=%s proxy=%s peer=%s "
                "[%d records on transports %s]"
                % (sig["clause"], sig["cause"], e["cfg"]["role"], json.dumps(e["cfg"], sort_keys=True), e["after"],
                   json.dumps(e["cred"], sort_keys=True), e["startup"],
                   json.dumps({k: e["proxy"][k] for k in ("hs", "byte")}),
                   json.dumps({k: e["peer"][k] for k in ("hs", "byte")}), len(evs),
                   ",".join(sorted(set(x["transport"] for x in evs)))))
        case = {k: e[k] for k in ("transport", "cfg", "cred", "after")}
        is_new = c.violation(sig, what, {"kind": "tls-case", "signature": sig, "case": case, "record": e})
        new += 1 if is_new else 0
        sigs.append(dict(sig, records=len(evs), known=not is_new))
    if conforms == "neither" and not viol:
        ln = (off_pinned + off_fixed)[0]
        raise Broken("the tree matches neither code model of TlsAdmitRules.tla although no clause of C19 is violated "
                     "(non-conformance), e.g. %s" % json.dumps(events[ln - 1])[:600])
    if rp.violated and conforms == "fixed":
        c.notes.append("the tree conforms to the ClientAuthFix = TRUE model: the pinned-model counterexample is obsolete")
    if conforms == "pinned" and rp.violated and not viol and not a.replay:
        raise Broken("TLC counterexample of the pinned model not reproduced although the tree conforms to it")
    if a.replay:    # a single case: verdict only, the committed evidence stays that of the last full run
        for k in c.known_hits:
            print("KNOWN-FINDING: property=%s %s [%s]" % (c.pid, k["what"], k["id"]), flush=True)
        for v in c.violations:
            log("violation:", v["what"])
        if c.violations:
            print("VIOLATION property=%s replay=%s" % (c.pid, a.replay), flush=True)
            return 1
        log("replayed case %s: no new violation" % json.dumps(cases[0]))
        return 0
    # ---- evidence
    executed = [e for e in events if e["startup"] == "ready"]
    distinct = set((e["transport"], e["after"], json.dumps(e["cfg"], sort_keys=True),
                    json.dumps(e["cred"], sort_keys=True)) for e in executed)
    by_tr = {}
    for e in events:
        d = by_tr.setdefault(e["transport"] + "/" + e["cfg"]["role"],
                             {"cases": 0, "ready": 0, "reject": 0, "disabled": 0, "admitted": 0, "refused": 0})
        d["cases"] += 1
        d[e["startup"]] += 1
        if e["startup"] == "ready":
            d["admitted" if e["proxy"]["hs"] and e["proxy"]["byte"] else "refused"] += 1
    c.coverage.update({
        "evaluations": len(events), "distinct_nontrivial": len(distinct), "exhaustive": True,
        "rule": "the complete cross product Cfgs x Envs(cfg) x Creds(role) of TlsAdmitRules.tla as enumerated by TLC "
                "(TlsAdmitCases), executed on each transport (direct, mux, tcp) and, in the thorough tier, repeated with "
                "fresh keys; non-trivial = the endpoint started and a real connection was attempted; distinct = different "
                "(transport, configuration, files-after-start, credential) tuple",
        "cases_with_ca_bundle_removed_after_start": sum(1 for e in events if e["after"] == "caRemoved"),
        "cases_with_plaintext_peer": sum(1 for e in events if e["cred"]["class"] == "plaintext"),
        "cross_product": len(base), "transports": only, "repetitions": reps,
        "handshakes_attempted": len(executed), "by_transport_role": by_tr,
        "violating_records": len(viol), "violation_groups": len(groups), "new_violation_groups": new,
        "violation_signatures": sigs,
        # observation, not a clause of C19: remoteCAPath given and verification not skipped, but neither certificate nor
        # caServerName -> TLSConfig.IsEnabled() is false and the endpoint silently runs without TLS
        "disabled_although_ca_bundle_and_verify": sum(1 for e in events if e["startup"] == "disabled"
                                                      and e["cfg"]["verify"] and e["cfg"]["ca"] == "caA"),
        "conforms_to_code_model": conforms, "records_off_pinned_model": len(off_pinned),
        "records_off_fixed_model": len(off_fixed),
    })
    samples = [events[0]] + executed[:1] + [e for e in executed if e["proxy"]["byte"]][:1] + \
              [events[ln - 1] for ln, _ in viol[:1]]
    return c.finish(samples)
