import importlib
import os
import re
import sys

HERE = os.path.dirname(os.path.abspath(__file__))
sys.path.insert(0, HERE)


def table():
    """property id -> (module under lib/, evidence level). Every lib/p_*.py declares PROPS = {"Cxx": "<level>", ...}."""
    t = {}
    for fn in sorted(os.listdir(HERE)):
        if not (fn.startswith("p_") and fn.endswith(".py")):
            continue
        src = open(os.path.join(HERE, fn)).read()
        m = re.search(r"^PROPS\s*=\s*(\{.*?\})\s*$", src, re.M | re.S)
        if not m:
            continue
        for pid, level in eval(m.group(1)).items():
            t[pid] = (fn[:-3], level)
    return t


if __name__ == "__main__":
    TABLE = table()
    if len(sys.argv) < 2 or sys.argv[1] not in TABLE:
        print("usage: ./check <%s> --tier quick|thorough" % "|".join(sorted(TABLE)), file=sys.stderr)
        sys.exit(2)
    pid = sys.argv[1]
    modname, level = TABLE[pid]
    mod = importlib.import_module(modname)
    import vlib
    vlib.main(lambda c, a: mod.run(c, a), pid, level)
