import importlib
import os
import sys

sys.path.insert(0, os.path.dirname(os.path.abspath(__file__)))

# property id -> (module under lib/, evidence level)
TABLE = {
    "C01": ("p_routing", "model_checking"),
    "C02": ("p_routing", "model_checking"),
    "C03": ("p_routing", "model_checking"),
    "C04": ("p_routing", "model_checking"),
    "C05": ("p_ring", "model_checking"),
    "C08": ("p_life", "model_checking"),
    "C09": ("p_gossip", "model_checking"),
}

if __name__ == "__main__":
    if len(sys.argv) < 2 or sys.argv[1] not in TABLE:
        print("usage: ./check <%s> --tier quick|thorough" % "|".join(sorted(TABLE)), file=sys.stderr)
        sys.exit(2)
    pid = sys.argv[1]
    modname, level = TABLE[pid]
    mod = importlib.import_module(modname)
    import vlib
    vlib.main(lambda c, a: mod.run(c, a), pid, level)
