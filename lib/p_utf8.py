"""C17, C18 -- UTF-8 repair (spec/Utf8Codec, spec/SchemaWalk with failure-message leaves).

C18: the legacy (1.22) struct graph of every convertible request/response type is exported from the real conversion tables;
     TLC enumerates every structural path to a failure message; each path is one real RepairUTF8Codec.Unmarshal on wire
     bytes with raw invalid UTF-8 at that place.
C17: TLC enumerates the abstract wire classes and the outcome the decision procedure must give; each class is realised
     and run through the real codec; transparency is judged against the standard codec on the same bytes.
"""
import json
import os
import re

from vlib import Broken, NCPU, log

PROPS = {"C17": "exploration", "C18": "exploration"}
HARNESS = ["zz_verif_utf8_test.go"]
OBS_RE = re.compile(r'<<(\d+), "(\w+)">>')
NSEQ = 9   # kinds of invalid content in the harness (vu8Seqs)
CONV_ROOT = "temporal.api.workflowservice.v1.RespondWorkflowTaskFailedRequest"
_NOTE = ("Trusted: TLC; wire bytes are produced by marshalling a placeholder and overwriting it with raw invalid sequences (9 kinds: invalid runs of 4, 3, 2, 1 bytes and two runs); "
         "the byte-level clause 'only the offending bytes are replaced, everything else intact' is decided by comparing with a reference "
         "message / the standard codec's decode inside the harness (TLC has no business decoding UTF-8) - stated limit of DESIGN 3.12.")
MANIFEST = {
    "C18": dict(engine="SchemaWalk", category="exploration", design_ref="3.11",
                technique="TLA+ path explorer (SchemaWalk.tla, failure-message leaves) over the legacy struct graph exported from the real "
                          "conversion tables; one real codec run per path; records judged by TLC (Utf8Obs.tla)",
                text="For every root type of the admin and frontend conversion tables (172 today) every structural path to a failure message "
                     "- nested causes, oneof branches, repeated fields, history events, commands - is enumerated by TLC from reflection over "
                     "the legacy structs and executed: raw invalid UTF-8 at that place must be repaired by the real codec with every other "
                     "field intact. Exhaustive over paths up to the recursion bound.", note=_NOTE),
    "C17": dict(engine="Utf8Codec", category="exploration", design_ref="3.12",
                technique="TLA+ decision spec of RepairUTF8Codec.Unmarshal over abstract wire classes (Utf8Codec.tla), enumerated by TLC; each "
                          "class realised on real wire bytes and run through the real codec and the standard codec; judged by TLC (Utf8Obs.tla)",
                text="All 216 abstract classes (convertible or not, what the process decoded before (nothing / over-deep / repaired), 0-2 invalid failure messages, invalid UTF-8 elsewhere, chain depth in/at/over "
                     "the maximum, intact/truncated wire) x 9 kinds of invalid content (runs of 4,3,2,1 bytes, two runs): transparent on everything the standard codec "
                     "accepts, repaired (U+FFFD, rest intact) where the design says so, an error - never a corrupted message - otherwise.",
                note=_NOTE),
}


def run(c, a):
    c.assumptions += ["invalid UTF-8 is injected by overwriting a placeholder in the marshalled bytes",
                      "recursion through Failure.cause bounded by the explorer (each type at most twice per path); the depth bound of the "
                      "repair itself is covered by the C17 classes"]
    binpath = c.go_test_build("proto/compat", HARNESS, name="utf8")
    cwd = os.path.join(os.environ.get("VERIF_REPO", "/repo"), "proto", "compat")
    obligs = []
    extra = {}
    if c.pid == "C18":
        out = os.path.join(c.scratch, "LegacyGen.tla")
        rc, txt = c.go_test("proto/compat", HARNESS, "^TestVerifLegacyExport$", env={"VERIF_OUT": out}, timeout=300, name="export")
        if rc != 0 or not os.path.exists(out):
            raise Broken("legacy export failed: " + txt[-1500:])
        schema = open(out).read()

        def on_line(line):
            try:
                d = json.loads(line)
                if isinstance(d, str):
                    d = json.loads(d)
            except ValueError:
                return
            # each path with every kind of invalid content (run lengths 4,3,2,1, two runs); paths that reach a failure directly also with
            # the failure message at the end of a cause chain of exactly the supported depth
            for deep in ((False, True) if "cause" not in d["path"] else (False,)):
                # wrap: the failures above the one under test carry valid messages of their own (only where there is a chain)
                for wrap in ((False, True) if (deep or "cause" in d["path"]) else (False,)):
                    for seq in range(NSEQ):
                        obligs.append({"id": len(obligs) + 1, "kind": "path", "type": d["root"]["method"], "path": d["path"], "deep": deep,
                                       "wrap": wrap, "seq": seq})
        r = c.tlc("SchemaWalk", "SchemaWalk", "walk_fail.cfg", workers=8, timeout=900, line_cb=on_line,
                  files={"SchemaGen.tla": schema}, name="walk-fail")
        if not r.ok or len(obligs) < 50:
            raise Broken("failure-path exploration failed (%d paths): %s" % (len(obligs), r.error_text[-600:]))
        # all at once: every failure path of a root type in one message (several invalid places, several events / commands)
        by_root = {}
        for o in obligs:
            if not o["deep"] and not o["wrap"] and o["seq"] == 0:
                by_root.setdefault(o["type"], []).append(o["path"])
        for t in sorted(by_root):
            for seq in range(NSEQ):
                obligs.append({"id": len(obligs) + 1, "kind": "all", "type": t, "path": [], "paths": by_root[t], "deep": False, "wrap": False, "seq": seq})
        m = re.search(r"NTypes == (\d+)\nNFields == (\d+)\nNUnconvertible == (\d+)", schema)
        extra.update({"legacy_types": int(m.group(1)), "legacy_fields": int(m.group(2)), "unconvertible_roots": int(m.group(3)),
                      "roots_with_failure_path": len({o["type"] for o in obligs}), "path_states": r.distinct})
    else:
        out = os.path.join(c.scratch, "LegacyGen.tla")
        rc, txt = c.go_test("proto/compat", HARNESS, "^TestVerifLegacyExport$", env={"VERIF_OUT": out}, timeout=300, name="export")
        if rc != 0 or not os.path.exists(out):
            raise Broken("legacy export failed: " + txt[-1500:])
        # transparency on valid data for EVERY convertible root type: each failure path of the legacy struct graph realised with
        # valid (non-ASCII) text, decoded by the codec and by the standard codec
        vpaths = []

        def on_vline(line):
            try:
                d = json.loads(line)
                if isinstance(d, str):
                    d = json.loads(d)
            except ValueError:
                return
            vpaths.append(d)
        rv = c.tlc("SchemaWalk", "SchemaWalk", "walk_fail.cfg", workers=8, timeout=900, line_cb=on_vline,
                   files={"SchemaGen.tla": open(out).read()}, name="walk-fail")
        if not rv.ok or len(vpaths) < 50:
            raise Broken("failure-path exploration failed (%d paths)" % len(vpaths))
        for d in vpaths:
            for deep in ((False, True) if "cause" not in d["path"] else (False,)):
                obligs.append({"id": len(obligs) + 1, "kind": "valid", "type": d["root"]["method"], "path": d["path"], "deep": deep, "wrap": True, "seq": 0})
        extra["valid_paths"] = len(obligs)
        m = re.search(r'UnconvertibleSample == "([^"]*)"', open(out).read())
        unconv = m.group(1) if m else ""
        if not unconv:
            raise Broken("no unconvertible sample type found")
        classes = []

        def on_class(line):
            try:
                d = json.loads(line)
                if isinstance(d, str):
                    d = json.loads(d)
                classes.append(d)
            except ValueError:
                pass
        r = c.tlc("Utf8Codec", "Utf8Codec", "classes.cfg", workers=1, timeout=120, line_cb=on_class, name="classes")
        if len(classes) < 200:
            raise Broken("class enumeration failed")
        reps = NSEQ   # one per kind of invalid content
        for cl in classes:
            for k in range(reps):
                obligs.append({"id": len(obligs) + 1, "kind": "class", "type": CONV_ROOT if cl["root"] == "conv" else unconv, "path": [], "class": cl,
                               "seq": k})
        extra.update({"classes": len(classes), "byte_sequence_kinds": reps, "unconvertible_sample": unconv})
    nshard = min(NCPU, max(1, len(obligs) // 200))
    files = []
    for i in range(nshard):
        p = os.path.join(c.scratch, "u8-in-%d.ndjson" % i)
        with open(p, "w") as f:
            for o in obligs[i::nshard]:
                f.write(json.dumps(o) + "\n")
        files.append(p)
    res = c.run_shards(binpath, "^TestVerifUtf8Obligations$", files, os.path.join(c.scratch, "u8-out"), timeout=600, cwd=cwd)
    recs = []
    for rc, out_, outp in res:
        if rc != 0 or not os.path.exists(outp):
            if c.crash_verdict("Utf8", rc, outp):
                continue
            raise Broken("utf8 shard failed rc=%s: %s" % (rc, out_[-1500:]))
        for line in open(outp):
            recs.append(json.loads(line))
    unbuilt = [r_ for r_ in recs if not r_["built"]]
    if len(unbuilt) > 0.05 * len(recs):
        raise Broken("%d of %d obligations could not be materialised: %s" % (len(unbuilt), len(recs), unbuilt[0]["err"]))
    lines = [json.dumps(r_) for r_ in recs]
    ro = c.tlc("Utf8Codec", "Utf8Obs", "obs.cfg", workers=1, timeout=600, files={"trace.ndjson": "\n".join(lines) + "\n"}, name="obs")
    text = open(ro.out).read()
    m = re.search(r'<<\s*"OBS_VIOLATIONS",\s*(\{.*?\})\s*>>\s*\n<<\s*"OBS_TRACE_LEN"', text, re.S)
    if not m or not ro.ok:
        raise Broken("Utf8Obs did not report: " + ro.error_text[-1200:])
    seen = set()
    nv = 0
    for g in OBS_RE.finditer(m.group(1)):
        rec = recs[int(g.group(1)) - 1]
        nv += 1
        if rec["kind"] == "all":
            sig = {"module": "Utf8", "clause": "unrepaired", "leafpath": "all-at-once/" + rec["type"].split(".")[-1]}
        elif rec["kind"] == "valid":
            sig = {"module": "Utf8", "clause": "nottransparent", "type": rec["type"].split(".")[-1]}
        elif rec["kind"] == "path":
            sig = {"module": "Utf8", "clause": "unrepaired", "leafpath": "/".join(rec["path"][-3:])}
        else:
            sig = {"module": "Utf8", "clause": "class", "class": json.dumps(rec["class"], sort_keys=True)}
        key = json.dumps(sig, sort_keys=True)
        if key in seen:
            continue
        seen.add(key)
        c.violation(sig, "%s: %s" % (sig["clause"], json.dumps(rec)[:500]), {"kind": "utf8", "record": rec})
    c.coverage.update({"obligations": len(obligs), "executed": len(recs), "unbuilt": len(unbuilt), "violating": nv,
                       "evaluations": len(recs), "distinct_nontrivial": len(obligs) if c.pid == "C18" else extra.get("classes", 0),
                       "exhaustive": True,
                       "rule": "C18: every (convertible root type, structural path to a failure message) of the legacy struct graph; "
                               "C17: every abstract wire class x 9 kinds of invalid content; C18 paths x 9 kinds, plus exact-depth chains, after an over-deep message of the same type"})
    if c.pid == "C17":
        # the same repair inside history-event blobs (interceptor/reflection.go tryRepairInvalidUTF8InBlob): every blob path of the
        # real schema with an invalid failure message in the blob and a namespace that is NOT mapped (the translator has nothing
        # to change): the blob must still leave the interceptor repaired - decodable, the name untouched
        import p_schema
        schema = p_schema.export_schema(c)
        bobl, _r = p_schema.explore(c, schema, "walk.cfg")
        blobs = []
        for o in bobl:
            if o["leaf"].startswith("ns") and o["inblob"]:
                for solo in (False, True):
                    for variant in ("dirty", "dirtyfirst"):     # the event that needs the repair is the last / the first of the batch
                        d = dict(o)
                        d.update(variant=variant, value="ns-not-mapped", solo=solo, id=len(blobs) + 1)
                        blobs.append(d)
        brecs = p_schema.run_obligations(c, blobs, "u8blob")
        brecs = [r_ for r_ in brecs if not r_.get("scope")]
        nb = 0
        for ln, clause in p_schema.judge(c, brecs, "u8blob"):
            if clause not in ("error", "untranslated"):
                continue
            nb += 1
            if nb == 1:
                rec = brecs[ln - 1]
                c.violation({"module": "Utf8", "clause": "blobrepair", "field": [x for x in rec["path"] if x != "@blob"][max(0, rec["path"].index("@blob") - 1)]},
                            "a history blob that needs UTF-8 repair and holds nothing to translate did not leave the interceptor repaired: %s"
                            % json.dumps(rec)[:400], {"kind": "obligation", "record": rec})
        extra.update({"blob_repair_obligations": len(brecs), "blob_repair_violations": nb})
    c.coverage.update(extra)
    samples = [{"obligation": obligs[0], "record": recs[0]}, {"obligation": obligs[-1], "record": recs[-1]}]
    return c.finish(samples)
