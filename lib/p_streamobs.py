"""C20 -- no stream-open metadata can wedge or crash replication-stream service (spec/StreamObs).

1. TLC checks the design (handlers with pc, the grow lock, W-bit wrap arithmetic, all header values of the small width)
   for the code as pinned (Fixed = FALSE: the safety clauses that hold, and LockNotLeaked / NoWedge which the design
   predicts to fail) and for the repaired code (Fixed = TRUE: everything holds).
2. Binding: the real adminServiceProxyServer.StreamWorkflowReplicationMessages behind the real grpc.Server of a
   NewClusterConnection-built ClusterConnection (default, LCM and routing mode, real ReplicationStreamObserver), probed
   with the boundary values of DESIGN 3.9 in all four metadata keys plus seeded random int32s, each followed by a
   well-formed stream that must be served within the bound.  TLC annotates the candidates with the design's
   predictions at W = 32 (memory guard), and judges the recorded events (StreamObsObs.tla).
"""
import json
import os
import random
import re
import threading

from vlib import Broken, NCPU, ROOT, log

PROPS = {"C20": "model_checking"}
MANIFEST = {"C20": dict(
    engine="StreamObs", category="model_checking", design_ref="3.9",
    technique="TLA+ spec of stream-open bookkeeping (StreamObs.tla: 2-3 handlers with program counters, streamGrowLock, "
              "grow-on-demand counter slice with W-bit two's-complement arithmetic on limbs, CapturePanic, deferred decrement) "
              "model-checked by TLC over every header value of the small width, for the pinned and the repaired code; the real "
              "stream handler behind the real grpc.Server of a ClusterConnection is probed with boundary and random values in all "
              "four metadata keys and three shard-count modes, each probe followed by a well-formed stream; the events are judged "
              "by TLC (StreamObsObs.tla), which evaluates the same limb arithmetic at the real width W = 32",
    text="Exhaustive at W = 6 (2 handlers, every wire value incl. truncating ones) and W = 8 (3 handlers, one value per input "
         "class): every open ends served or rejected, no handler keeps the lock, later well-formed streams are served, counters "
         "return to zero.  On the real code: -2^31, -1, 0, 1, 1023..1025, 2^27, 238609293/4, 2^30, 2^31-2, 2^31-1, truncating "
         "values >= 2^32, int64 extremes, empty / missing / non-numeric values, random int32s; in each of the four keys; "
         "default, LCM and routing mode; both servers.",
    note="Trusted: TLC; the fake clusters; the time bound of the follow-up stream (3 s on loopback; a leaked lock never "
         "recovers). Probes whose counter slice would exceed ~1.15 GB are skipped (listed in the evidence).")}
HARNESS = ["zz_verif_lcm_test.go", "zz_verif_streamobs_test.go"]
OBS_RE = re.compile(r'<<(\d+), "(\w+)">>')
KEYS = ["ssh", "csh", "scl", "ccl"]
MODES = ["default", "lcm", "routing"]
LIMIT_K = 281000          # counters in units of 1024 (4 KiB): ~1.15 GB
FOLLOW_BOUND_MS = 8000

BOUNDARY = [-2 ** 31, -1, 0, 1, 1023, 1024, 1025, 2 ** 27, 238609293, 238609294, 2 ** 30, 2 ** 31 - 2, 2 ** 31 - 1,
            2 ** 32, 2 ** 32 + 5, 2 ** 32 + 238609294, 2 ** 33 - 1, -2 ** 31 - 1, 2 ** 63 - 1, -2 ** 63]
TEXTS = [("", False), ("x", False), ("1e3", False), ("0x10", False), (" 7", False), ("9223372036854775808", False),
         ("+7", True), ("007", True)]
INT_RE = re.compile(r"^[+-]?[0-9]+$")


def limbs(v):
    u = v % (1 << 64)
    return [(u >> 48) & 0xFFFF, (u >> 32) & 0xFFFF, (u >> 16) & 0xFFFF, u & 0xFFFF]


def candidates(tier, seed):
    """The probes: header key x value x mode x server.  Input classes, not expectations."""
    rng = random.Random(seed)
    vals = [(str(v), True, v) for v in BOUNDARY]
    for t, num in TEXTS:
        vals.append((t, num, int(t) if num else 0))
    nrand = 300 if tier == "thorough" else 10
    rnd = [rng.randrange(-2 ** 31, 2 ** 31) for _ in range(nrand)]
    rnd += [rng.randrange(238609294, 256 * 10 ** 6) for _ in range(3 if tier == "quick" else 30)]   # above the overflow point, cheap
    out = []

    def add(key, val, numeric, v, mode, absent=False):
        n = len(out) + 1
        out.append(dict(n=n, id=n, mode=mode, srv="outbound" if n % 2 else "inbound", key=key, val=val, absent=absent,
                        numeric=numeric, limbs=limbs(v) if numeric else [0, 0, 0, 0], big=False))
    for key in KEYS:
        for (val, numeric, v) in vals:
            for mode in MODES:
                add(key, val, numeric, v, mode)
        for mode in MODES:
            add(key, "", False, 0, mode, absent=True)
    for k, v in enumerate(rnd):
        add("ssh", str(v), True, v, MODES[k % 3])
    for k, v in enumerate(rnd[:len(rnd) // 2]):
        add(KEYS[1 + k % 3], str(v), True, v, MODES[(k // 3) % 3])
    return out


def run(c, a):
    thorough = c.tier == "thorough"
    c.assumptions += [
        "a stream counts as served when a fake cluster saw the proxy's upstream open and the stream ended normally after "
        "the client half-closed; the fake clusters accept every stream immediately",
        "follow-up bound %d ms on loopback; a leaked streamGrowLock never recovers, so the bound only separates slow from never"
        % FOLLOW_BOUND_MS,
        "every probe runs on a fresh ClusterConnection (fresh observers); concurrency of handlers is covered by the design "
        "model, the binding holds one stream open across the probe",
    ]
    # ---- 1. design
    design = [("so_cur_safe.cfg", "hold"), ("so_cur_wedge.cfg", "violated"), ("so_fix.cfg", "hold"), ("so_fix3.cfg", "hold"),
              ("so_mut_nodefer.cfg", "violated"), ("so_mut_fastpath.cfg", "violated"), ("so_mut_flag.cfg", "violated"),
              ("so_mut_trackmod.cfg", "violated"), ("so_cur_track.cfg", "violated")]
    if thorough:
        design += [("so_cur3_safe.cfg", "hold"), ("so_cur3_wedge.cfg", "violated"), ("so_fix_live.cfg", "hold"),
                   ("so_fix3_live.cfg", "hold"), ("so_fix_w8.cfg", "hold"), ("so_cur_w8_safe.cfg", "hold")]
    dres = {}

    def drun(cfg):
        try:
            dres[cfg] = c.tlc("StreamObs", "StreamObs", cfg, workers=8 if "w8" in cfg else 4, heap="8g" if "w8" in cfg else None, timeout=1500 if thorough else 300,
                              name="design-" + cfg[:-4])
        except Exception as ex:     # noqa
            dres[cfg] = ex
    ths = [threading.Thread(target=drun, args=(cfg,)) for cfg, _ in design]
    for t in ths:
        t.start()
    # ---- 2. candidates annotated by TLC
    cands = candidates(c.tier, c.seed)
    if a.replay:
        case = json.load(open(a.replay))["case"]
        cands = [x for x in cands if x["key"] == "ssh" and x["val"] == "238609294" and x["mode"] == "default"][:1]
        cands.append(dict(case, n=2, id=2))
        cands[0].update(n=1, id=1)
    ann = {}

    def on_line(line):
        try:
            d = json.loads(line)
            if isinstance(d, str):
                d = json.loads(d)
            ann[d["n"]] = d
        except ValueError:
            pass
    c.tlc("StreamObs", "StreamObsCases", "cases.cfg", workers=1, timeout=900, line_cb=on_line, name="cases",
          files={"cases.ndjson": "".join(json.dumps(x) + "\n" for x in cands)})
    if len(ann) != len(cands):
        raise Broken("candidate annotation incomplete: %d of %d" % (len(ann), len(cands)))
    sentinel = [x for x in cands if x["key"] == "ssh" and x["val"] == "238609294" and x["mode"] == "default"]
    if not sentinel:
        raise Broken("sentinel probe 238609294 missing")
    binpath = c.go_test_build("proxy", HARNESS, name="streamobs")
    # memory safety net for the probing processes (address space, DESIGN 3.9)
    wrapper = os.path.join(c.scratch, "streamobs-limited.sh")
    with open(wrapper, "w") as f:
        f.write("#!/bin/sh\nulimit -v 25165824\nexec %s \"$@\"\n" % binpath)
    os.chmod(wrapper, 0o755)

    def probe(cases, tag):
        # cheap probes spread over processes; big ones in small separate processes
        small = [x for x in cases if not x["big"]]
        big = [x for x in cases if x["big"]]
        nsh = max(1, min(NCPU // 2, len(small) // 12))
        groups = [([small[i::nsh] for i in range(nsh)], NCPU, "")]
        # big probes: few per process (a wedged handler keeps its counters reachable until the process exits), few processes
        groups.append(([big[b:b + 4] for b in range(0, len(big), 4)], 3, "big"))
        events = []
        for parts, maxpar, sub in groups:
            parts = [x for x in parts if x]
            if not parts:
                continue
            files = []
            for i, part in enumerate(parts):
                p = os.path.join(c.scratch, "so-%s%s-in-%d.ndjson" % (tag, sub, i))
                with open(p, "w") as f:
                    for x in part:
                        f.write(json.dumps(x) + "\n")
                files.append(p)
            res = c.run_shards(wrapper, "^TestVerifStreamObs$", files, os.path.join(c.scratch, "so-%s%s-out" % (tag, sub)),
                               timeout=800, maxpar=maxpar, env={"VERIF_FOLLOW_BOUND_MS": str(FOLLOW_BOUND_MS), "VERIF_PAR": "6"})
            for rc, out, outp in res:
                evs = [json.loads(l) for l in open(outp)] if os.path.exists(outp) else []
                if rc != 0:
                    # a crash of the probing process is a verdict only if the proxy panicked outside CapturePanic
                    if evs and proxy_panicked(outp + ".log"):
                        log("probing process died in proxy code: " + out[-400:])
                    else:
                        raise Broken("harness shard failed rc=%s: %s" % (rc, out[-1500:]))
                events += evs
        return events
    # phase 0: the sentinel alone (cheap under both arithmetics) tells which growth arithmetic the tree has, and with it
    # which probes fit the memory limit
    sentinel[0]["big"] = True      # on the repaired tree it allocates ~1 GB: generous bounds (slow is not a verdict)
    events = probe(sentinel, "s")
    s_res = [e for e in events if e["ev"] == "Result"]
    wraps = bool(s_res) and s_res[0].get("result") == "rejected" and bool(s_res[0].get("panic"))
    alloc_key = "allocCurK" if wraps else "allocFixedK"
    main, skipped = [], []
    for x in cands:
        if x is sentinel[0]:
            continue
        k = ann[x["n"]][alloc_key]
        x["big"] = k > 32 * 1024                                  # > 128 MB: two at a time
        if k > LIMIT_K:
            x["skip"] = ("the tree serves shard id 238609294, so growth is proportional to the id: " if not wraps else
                         "") + "%d Ki counters" % k
            skipped.append(x)
        else:
            main.append(x)
    events += probe(main, "m")
    # one stream fails by a panic inside handleStream / several streams at once while the counter slice grows (StreamObs!Serve with
    # ServeFails, H handlers on one observer): in-process on the real handler, real parallelism
    dummy = os.path.join(c.scratch, "so-extra-in.ndjson")
    open(dummy, "w").write("{}\n")
    res = c.run_shards(wrapper, "^TestVerifStreamObsExtra$", [dummy], os.path.join(c.scratch, "so-extra-out"), timeout=900,
                       env={"VERIF_ROUNDS": "20" if thorough else "5"})
    extra = []
    extra_crashed = False
    for rc, out, outp in res:
        evs = [json.loads(l) for l in open(outp)] if os.path.exists(outp) else []
        if rc != 0:
            # the probing process died: a verdict iff the panic came out of the proxy's own code (the observer's printer runs
            # on a goroutine without recover in production, too)
            if c.crash_verdict("StreamObs", rc, outp):
                extra_crashed = True
            elif not (evs and proxy_panicked(outp + ".log")):
                raise Broken("extra probes failed rc=%s: %s" % (rc, out[-1500:]))
        extra += evs
    if extra_crashed:
        pass
    elif any(e["ev"] == "Overlap" and e["forwarder"] and e["baseline"] != 0 for e in extra):
        raise Broken("overlap probe: the process-wide stream tracker was not empty before the probe")
    if not extra_crashed and sum(1 for e in extra if e["ev"] == "Overlap") < 6:
        raise Broken("overlap probes incomplete")
    if not extra_crashed and (sum(1 for e in extra if e["ev"] == "Concurrent") < 4 or sum(1 for e in extra if e["ev"] == "ServePanic") < 4):
        raise Broken("extra probes incomplete: %d events" % len(extra))
    for e in extra:
        e["id"] += 1000000
    events += extra
    for t in ths:
        t.join()
    design_pred_leak = False
    for cfg, want in design:
        r = dres[cfg]
        if isinstance(r, Exception):
            raise Broken("design run %s failed: %s" % (cfg, r))
        if want == "hold":
            if r.violated or not r.ok:
                raise Broken("design %s: expected to hold, got %s %s" % (cfg, r.violated, r.error_text[-400:]))
        else:
            if not r.violated:
                raise Broken("design %s: the pinned-code model no longer shows the lock leak -- spec changed?" % cfg)
            design_pred_leak = True
    # ---- 3. TLC judges the events
    trace = "".join(json.dumps(e) + "\n" for e in events)
    ro = c.tlc("StreamObs", "StreamObsObs", "obs.cfg", workers=1, timeout=900, files={"trace.ndjson": trace}, name="obs")
    text = open(ro.out).read()
    m = re.search(r'<<\s*"OBS_VIOLATIONS",\s*(\{.*?\})\s*>>\s*\n<<\s*"OBS_TRACE_LEN",\s*(\d+)\s*>>', text, re.S)
    if not m or not ro.ok or int(m.group(2)) != len(events):
        raise Broken("StreamObsObs did not report: " + ro.error_text[-1200:])
    by_id = {}
    for e in events:
        by_id.setdefault(e["id"], {})[e["ev"]] = e
    flags = {}
    for g in OBS_RE.finditer(m.group(1)):
        flags.setdefault(int(g.group(1)), set()).add(g.group(2))
    verdict_clauses = ("ends", "followup", "printer", "corrupt", "balanced", "tracker", "crash")
    clause_count, not_cur, not_fixed, viol_ids = {}, [], [], set()
    for pid, fl in sorted(flags.items()):
        p = by_id[pid]
        if "notcur" in fl:
            not_cur.append(pid)
        if "notfixed" in fl:
            not_fixed.append(pid)
        bad = [x for x in verdict_clauses if x in fl]
        if not bad:
            continue
        viol_ids.add(pid)
        for b in bad:
            clause_count[b] = clause_count.get(b, 0) + 1
        if "Open" not in p:
            kind = "ServePanic" if "ServePanic" in p else ("Overlap" if "Overlap" in p else "Concurrent")
            e = p[kind]
            cause = {"ServePanic": "serve-panic-bookkeeping", "Overlap": "overlapping-streams-bookkeeping"}.get(kind, "concurrent-bookkeeping")
            if kind == "Overlap" and bad == ["tracker"]:
                # classification only: every mismatch is about the server shard id that two streams shared
                def only_shared(st):
                    a, b = list(st["tracked"]), list(st["streams"])
                    return st["twin"] and [x for x in a if x != 5] == [x for x in b if x != 5]
                if all(st["tracked"] == st["streams"] or only_shared(st) for st in e["steps"]):
                    cause = "forwarder-tracker-entry-shared-by-streams-on-one-server-shard"
            c.violation({"module": "StreamObs", "cause": cause,
                         "clauses": "+".join(bad)},
                        "%s: %s" % ("/".join(bad), json.dumps(e)[:400]), {"kind": "streamobs-extra", "event": e})
            continue
        o = p["Open"]
        if "crash" in fl:
            cause = "process-crash"
        elif "predleak" in fl and o["key"] == "ssh":
            cause = "observer-grow-overflow-lock-leak"
        else:
            cause = "unpredicted-key-%s" % o["key"]
        c.violation({"module": "StreamObs", "cause": cause, "clauses": "+".join(bad)},
                    "%s after opening a stream with %s=%r (mode %s, %s server): result %s, follow-up %s, printer %s"
                    % ("/".join(bad), o["key"], o["val"], o["mode"], o["srv"],
                       json.dumps({k: p.get("Result", {}).get(k) for k in ("result", "detail")}),
                       p.get("FollowUp", {}).get("follow"), p.get("FollowUp", {}).get("printer")),
                    {"kind": "streamobs-probe", "case": o, "events": p})
    nskip = sum(1 for e in events if e["ev"] == "Skipped")
    if nskip > max(3, len(cands) // 20):
        raise Broken("%d of %d probes could not set up their rig (overloaded machine?): %s" % (
            nskip, len(cands), [e["why"] for e in events if e["ev"] == "Skipped"][:2]))
    c.coverage["probes_skipped_rig_not_up"] = nskip
    nprobes = sum(1 for e in events if e["ev"] == "Open")
    complete = [pid for pid, p in by_id.items() if "FollowUp" in p]
    variant = "pinned" if not not_cur else ("repaired" if not not_fixed else "neither")
    outcomes = {}
    for pid, p in by_id.items():
        if "Open" not in p:
            continue
        k = p.get("Result", {}).get("result", "crash")
        outcomes[k] = outcomes.get(k, 0) + 1
    distinct = set()
    for pid, p in by_id.items():
        if "Open" not in p:
            continue
        o = p["Open"]
        if o["numeric"] and o["val"] not in ("1", "+7", "007"):
            distinct.add((o["key"], o["val"], o["mode"]))
    c.coverage.update({
        "overlap_probes": sum(1 for e in extra if e["ev"] == "Overlap"),
        "serve_panic_probes": sum(1 for e in extra if e["ev"] == "ServePanic"),
        "concurrent_rounds": sum(1 for e in extra if e["ev"] == "Concurrent"),
        "probes": nprobes, "probes_completed": len(complete), "probes_skipped_memory": len(skipped),
        "skipped": [dict(key=x["key"], val=x["val"], mode=x["mode"], why=x["skip"]) for x in skipped][:40],
        "growth_arithmetic_wraps": wraps, "outcomes": outcomes, "violating_clauses": clause_count,
        "probes_with_violation": len(viol_ids), "conforms_to_design_of": variant,
        "not_conforming_to_pinned_model": len(not_cur), "not_conforming_to_repaired_model": len(not_fixed),
        "design_predicts_lock_leak_for_pinned_code": design_pred_leak,
        "evaluations": nprobes, "distinct_nontrivial": len(distinct),
        "rule": "one probe = fresh ClusterConnection, held well-formed stream, the stream under test (key x value x mode), a "
                "well-formed follow-up, observer printouts; values: boundary list of DESIGN 3.9 plus seeded random int32s; "
                "non-trivial = distinct (key, value, mode) with a numeric value other than an ordinary small id",
        "exhaustive": False,
    })
    if variant == "neither" and not c.violations:
        raise Broken("the real code conforms to neither design variant (pinned: %s, repaired: %s) and no property clause "
                     "is violated: the spec does not describe this tree" % (not_cur[:5], not_fixed[:5]))
    if variant == "neither":
        c.notes.append("probes %s differ from the pinned-code model, %s from the repaired-code model" % (not_cur[:8], not_fixed[:8]))
    if variant == "repaired":
        c.notes.append("the tree behaves like the repaired design (Fixed = TRUE): no lock leak on overflow ids")
    sample = []
    for pid in sorted(by_id)[:1] + sorted(viol_ids)[:1]:
        sample.append(by_id[pid])
    return c.finish(sample, traces_validated=len(complete) - len(viol_ids))


def proxy_panicked(logpath):
    """True iff the process died of a Go panic whose first stack runs through non-harness code of /repo/proxy."""
    try:
        text = open(logpath, errors="replace").read()
    except OSError:
        return False
    k = text.find("\npanic: ")
    if k < 0 and not text.startswith("panic: "):
        return False
    first = text[max(k, 0):].split("\n\n", 2)
    stack = "\n".join(first[:2])
    if "out of memory" in text[:400]:
        return False
    for line in stack.split("\n"):
        line = line.strip()
        if "/proxy/" in line and ".go:" in line and "zz_verif" not in line and "/pkg/mod/" not in line:
            return True
    return False


def load_proposed(pid):
    p = os.path.join(ROOT, "proposed", "%s-known.json" % pid)
    if not os.path.exists(p):
        return []
    with open(p) as f:
        return json.load(f)
