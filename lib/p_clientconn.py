"""C11 -- RPCs travel only over live mux sessions and fail over between them (spec/ClientConn).

1. TLC checks the design (ClientConn.tla): with the listener inside the table lock (the code) Sync, CanMakeCalls
   consistency, UnavailOnlyIfEmpty and resumption hold; with the listener outside the lock (vacuity variant) the same
   invariants break.
2. TLC generates add / kill / burst / in-flight-call schedules from ClientConnSim.tla (eager normal form): all
   behaviours of a one-slot pool up to the depth bound by BFS, seeded -simulate for 2 and 3 slots.
3. The in-package Go harness runs them on a REAL MultiClientConn wired to a REAL multiMuxManager (production dial
   options, real yamux sessions on pipes, a real gRPC server per session answering with its session id).
4. TLC evaluates ClientConnObs.tla on the recorded events: the only source of VIOLATION.
Two environment dimensions beyond add / kill / call: a HELD add (a gate listener registered in front of the
MultiClientConn's parks the notification of that AddConnection while other sessions are killed; with notifyChange under
the table lock this equals add-then-kill, with the add published outside the lock the removal overtakes it and the
stale list lands last) and a WEDGED session (its peer answers pings but never accepts a stream, so the client
connection's connect attempt hangs inside session.Open). Every read of the manager / client connection by the harness
is bounded, so a tree that never releases a lock gives `progress`, not a test timeout.
"""
import json
import os
import random
import re
from concurrent.futures import ThreadPoolExecutor

from vlib import Broken, NCPU, REPO, ROOT, log

PROPS = {"C11": "model_checking"}
MANIFEST = {"C11": dict(
    engine="ClientConn", category="model_checking", design_ref="3.8",
    technique="TLA+ spec of the session table, MultiClientConn.connMap, the manual resolver's endpoints and a weak model of "
              "gRPC (ClientConn.tla) model-checked by TLC, with a listener-outside-the-lock variant as vacuity check; "
              "TLC-generated add/kill/burst/in-flight schedules replayed on a real MultiClientConn + multiMuxManager over "
              "real yamux sessions on net.Pipe whose gRPC servers answer with their session id; recorded "
              "Update/Rpc/CanMakeCalls events judged by TLC (ClientConnObs.tla)",
    text="TLC checks on every interleaving of the bounded model that an applied update makes dialable endpoints equal the "
         "registered sessions, that CanMakeCalls matches the table, that a call fails Unavailable only if no session was "
         "alive at some point of the call (or the session it was in flight on was killed) and that service resumes; the same "
         "clauses are evaluated on real executions of every behaviour of a one-slot pool (bounded depth) and of simulated "
         "schedules for 2-3 slots, incl. kill / re-dial / empty set / rapid add-remove, bursts at quiescent points and "
         "calls held in flight across changes.",
    note="Trusted: TLC; grpc-go's round_robin/pick_first and the manual resolver are exercised as they are, not modelled "
         "beyond the weak model; connMap keys are read from MultiClientConn.Describe(). Table updates run eagerly in replay "
         "(a kill is followed by its unregistration before the next command); the window between them is covered by the "
         "design check and by calls held in flight across the kill.")}
HARNESS = ["zz_verif_clientconn_test.go"]
PROFILES = {
    "quick": dict(
        design=[("cc_lock2.cfg", True), ("cc_lock3.cfg", True),
                ("cc_nolock_sync.cfg", False), ("cc_nolock_unavail.cfg", False), ("cc_nolock_cmc.cfg", False)],
        bfs=[("bfs_c1.cfg", 1, 600), ("bfs_c1r.cfg", 1, 300), ("bfs_c1i.cfg", 1, 150), ("bfs_c2w.cfg", 2, 500)], gen=[("sim_c2.cfg", 2, 100), ("sim_c3.cfg", 3, 100)], limit=2900),
    "thorough": dict(
        design=[("cc_lock2.cfg", True), ("cc_lock3.cfg", True), ("cc_lock3_t.cfg", True),
                ("cc_nolock_sync.cfg", False), ("cc_nolock_unavail.cfg", False), ("cc_nolock_cmc.cfg", False)],
        bfs=[("bfs_c1.cfg", 1, 12000), ("bfs_c1r.cfg", 1, None), ("bfs_c1i.cfg", 1, None), ("bfs_c2w.cfg", 2, 8000)], gen=[("sim_c2.cfg", 2, 2500), ("sim_c3.cfg", 3, 2500)], limit=45000),
}
OBS_RE = re.compile(r'<<(\d+), "(\w+)", "([^"]*)", (-?\d+)>>')


def load_extra_findings(c):
    """known findings come from /verif/KNOWN_FINDINGS.json only (vlib)"""
    return


def parse_hist(line):
    try:
        h = json.loads(line)
        if isinstance(h, str):
            h = json.loads(h)
    except ValueError:
        return None
    if not isinstance(h, list):
        return None
    return [x for x in h if x["a"] != "Pad"]


def run(c, a):
    prof = PROFILES[c.tier]
    load_extra_findings(c)
    c.assumptions += [
        "sessions are real yamux pairs on net.Pipe handed to a real muxProvider by a scripted connProvider; the peers' gRPC "
        "servers are real (EchoAdminService) with an interceptor that records the session a call reached and can hold it",
        "table updates run eagerly between commands (eager normal form of the TLC behaviour)",
    ]
    if a.replay:
        scheds = [json.load(open(a.replay))["schedule"]]
    else:
        def one(job):
            cfg, must_hold = job
            return job, c.tlc("ClientConn", "ClientConn", cfg, workers=4, timeout=1800 if c.tier == "thorough" else 900,
                              name="design-" + cfg[:-4])
        with ThreadPoolExecutor(max_workers=3) as ex:
            results = list(ex.map(one, prof["design"]))
        vac = []
        for (cfg, must_hold), r in results:
            if must_hold:
                if r.violated:
                    raise Broken("design property violated in %s: %s (the spec is wrong)" % (cfg, r.violated))
                if not r.ok:
                    raise Broken("TLC did not complete on %s: %s" % (cfg, r.error_text[-600:]))
            else:
                if not r.violated:
                    raise Broken("vacuity check: %s (listener outside the table lock) was expected to break its invariant" % cfg)
                vac.append("%s: %s" % (cfg[:-4], ",".join(r.violated[:1])))
        c.coverage["vacuity_variants_violated"] = vac

        def collect(cfg, **kw):
            seen = {}

            def on_line(line):
                cmds = parse_hist(line)
                if cmds:
                    seen.setdefault(json.dumps(cmds, sort_keys=True), cmds)
            c.tlc("ClientConn", "ClientConnSim", cfg, line_cb=on_line, timeout=600, name="gen-" + cfg[:-4], **kw)
            return [seen[k] for k in sorted(seen)]
        rnd = random.Random(c.seed)
        scheds, sets = [], []
        for cfg, n, cap in prof["bfs"]:
            got = collect(cfg, workers=4)
            sets.append("%s: %d behaviours" % (cfg[:-4], len(got)))
            if cap and len(got) > cap:
                got = rnd.sample(got, cap)
                sets[-1] += " (%d sampled)" % cap
            scheds += [{"n": n, "cmds": x} for x in got]
        for cfg, n, num in prof["gen"]:
            got = collect(cfg, workers=4, simulate="num=%d" % num, depth=400, seed=c.seed)
            scheds += [{"n": n, "cmds": x} for x in got]
        if not scheds:
            raise Broken("no behaviours generated")
        if len(scheds) > prof["limit"]:
            scheds = rnd.sample(scheds, prof["limit"])
        for i, s in enumerate(scheds):
            s["id"] = "s%d" % i
            s["burst"] = 3 + i % 3
            # every other schedule also has background calls racing with the changes (not with a wedged session around:
            # once it is the only one registered a racing call would just sit out its deadline)
            s["idle"] = any(x["a"] == "Idle" for x in s["cmds"])
            s["bg"] = i % 2 == 1 and not any(x.get("w") for x in s["cmds"]) and not s["idle"]
        c.coverage["behaviour_sets"] = sets
    binpath = c.go_test_build("transport/mux", HARNESS, name="clientconn")
    nshard = min(NCPU, max(1, len(scheds) // 20))
    files = []
    for i in range(nshard):
        p = os.path.join(c.scratch, "clientconn-in-%d.ndjson" % i)
        with open(p, "w") as f:
            for s in scheds[i::nshard]:
                f.write(json.dumps(s) + "\n")
        files.append(p)
    res = c.run_shards(binpath, "^TestVerifClientConnSchedules$", files, os.path.join(c.scratch, "clientconn-out"),
                       timeout=600, cwd=os.path.join(REPO, "transport", "mux"))
    events = []
    for rc, out, outp in res:
        if rc != 0 or not os.path.exists(outp):
            if c.crash_verdict("ClientConn", rc, outp):
                continue
            raise Broken("harness shard failed rc=%s: %s" % (rc, out[-1500:]))
        for line in open(outp):
            events.append(json.loads(line))
    lines = [json.dumps(e) for e in events]
    ro = c.tlc("ClientConn", "ClientConnObs", "obs.cfg", workers=1, timeout=1200, files={"trace.ndjson": "\n".join(lines) + "\n"},
               name="obs")
    text = open(ro.out).read()
    m = re.search(r'<<\s*"OBS_VIOLATIONS",\s*(\{.*?\})\s*>>\s*\n<<\s*"OBS_TRACE_LEN",\s*(\d+)', text, re.S)
    if not m or not ro.ok:
        raise Broken("ClientConnObs did not report: " + ro.error_text[-1200:])
    if int(m.group(2)) != len(lines):
        raise Broken("ClientConnObs read %s of %d events" % (m.group(2), len(lines)))
    runs, run_of = [], []
    for e in events:
        if e["ev"] == "Config":
            runs.append([])
        run_of.append(len(runs) - 1)
        runs[-1].append(e)
    by_id = {s["id"]: s for s in scheds}
    bad_runs, clauses, reported = set(), {}, set()
    for g in OBS_RE.finditer(m.group(1)):
        ln, clause, r, x = int(g.group(1)), g.group(2), g.group(3), int(g.group(4))
        ri = run_of[ln - 1]
        bad_runs.add(ri)
        clauses[clause] = clauses.get(clause, 0) + 1
        if (ri, clause) in reported:
            continue
        reported.add((ri, clause))
        run_ev = runs[ri]
        c.violation({"module": "ClientConn", "clause": clause},
                    "%s at %s in schedule %s" % (clause, json.dumps(events[ln - 1])[:300], run_ev[0].get("id")),
                    {"kind": "clientconn-trace", "clause": clause, "schedule": by_id.get(run_ev[0].get("id")), "trace": run_ev})
    unreal = sum(1 for r in runs if any(e["ev"] == "Unrealised" for e in r))
    if unreal > 0.2 * max(1, len(runs)) and not c.violations:
        raise Broken("%d of %d schedules could not be realised" % (unreal, len(runs)))
    if len(runs) != len(scheds):
        raise Broken("%d schedules in, %d runs out" % (len(scheds), len(runs)))
    codes, cmds, inflight_killed, updates, empties = {}, {}, 0, 0, 0
    held = {"adds_held": 0, "notified_under_table_lock": 0, "kills_while_held": 0, "wedged_sessions": 0}
    for r in runs:
        arr, killed = {}, set()
        for e in r:
            if e["ev"] == "RpcEnd":
                k = e["code"] + {"g": "/held", "b": "/burst", "c": "/racing"}[e["r"][0]]
                codes[k] = codes.get(k, 0) + 1
                if e["code"] == "Unavailable" and arr.get(e["r"]) in killed:
                    inflight_killed += 1
            elif e["ev"] == "RpcArrive":
                arr[e["r"]] = e["k"]
            elif e["ev"] == "Cmd":
                kk = e["a"] + (":" + e["how"] if e.get("how") else "")
                cmds[kk] = cmds.get(kk, 0) + 1
                if e["a"] == "Kill":
                    killed.add(e["k"])
                    held["kills_while_held"] += 1 if e.get("held") else 0
                if e["a"] == "Add" and e.get("w"):
                    held["wedged_sessions"] += 1
            elif e["ev"] == "Held":
                held["adds_held"] += 1
                held["notified_under_table_lock"] += 1 if e["underLock"] else 0
            elif e["ev"] == "Update":
                updates += 1
                empties += 1 if not e["keys"] else 0
    nontrivial = len({json.dumps(s["cmds"], sort_keys=True) + str(s["n"]) for s in scheds
                      if any(x["a"] == "Kill" for x in s["cmds"]) and any(x["a"] in ("Burst", "RpcStart") for x in s["cmds"])})
    c.coverage.update({
        "schedules_replayed": len(runs), "unrealised": unreal, "events_validated": len(lines),
        "runs_with_violation": len(bad_runs), "violation_clauses": clauses, "rpc_results": codes, "commands_by_kind": cmds,
        "calls_failed_in_flight_on_killed_session": inflight_killed, "held_adds_and_wedged_sessions": held, "updates": updates, "updates_to_empty_set": empties,
        "evaluations": len(runs), "distinct_nontrivial": nontrivial,
        "rule": "distinct schedules of session additions, kills (peer hang-up / local Close), call bursts at quiescent points "
                "and calls held in flight, generated by TLC from ClientConnSim for pools of 1..3 slots; non-trivial = at least "
                "one kill and at least one call",
    })
    samples = [{"schedule": scheds[0], "rpc": [e for e in runs[0] if e["ev"] in ("RpcEnd", "Update")][:12]}]
    return c.finish(samples, traces_validated=len(runs) - len(bad_runs))
