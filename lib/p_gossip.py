"""C09 -- ownership convergence among proxy instances and owner routing (spec/Gossip)."""
import json
import os
import random
import re

from vlib import Broken, NCPU, log

PROPS = {"C09": "model_checking"}
HARNESS = ["zz_verif_routing_test.go", "zz_verif_life_test.go", "zz_verif_gossip_test.go", "zz_verif_gossipreal_test.go"]
PROFILES = {
    "quick": dict(design=[("g_fix2.cfg", 300), ("g_fix2s.cfg", 300), ("g_fix3.cfg", 300), ("g_leave_own.cfg", 300), ("g_join2.cfg", 300),
                          ("g_join3.cfg", 300), ("g_split2.cfg", 300)],
                  gen=[("sim_g2.cfg", ["a", "b"], 250, 18), ("sim_g.cfg", ["a", "b", "c"], 150, 24), ("sim_gj.cfg", ["a", "b"], 150, 18),
                       ("sim_gj3.cfg", ["a", "b", "c"], 100, 24), ("sim_gs.cfg", ["a", "b"], 150, 20)], limit=1500),
    "thorough": dict(design=[("g_fix2.cfg", 600), ("g_fix2s.cfg", 600), ("g_fix3.cfg", 600), ("g_fix2_t.cfg", 3000), ("g_fix3_t.cfg", 3000)],
                     gen=[("sim_g2.cfg", ["a", "b"], 3000, 18), ("sim_g.cfg", ["a", "b", "c"], 2500, 26), ("sim_gj.cfg", ["a", "b"], 1500, 18),
                          ("sim_gj3.cfg", ["a", "b", "c"], 1500, 26), ("sim_gs.cfg", ["a", "b"], 1500, 20)], limit=40000),
}
OBS_RE = re.compile(r'<<(\d+), "(\w+)", (-?\d+), (-?\d+)>>')


def run(c, a):
    prof = PROFILES[c.tier]
    c.assumptions += [
        "the harness plays memberlist: announcements are the real marshalled ShardMessages captured at the vhook point, "
        "delivered by calling shardDelegate.NotifyMsg / MergeRemoteState / NotifyLeave directly",
        "every run is completed to quiescence (each announcement reaches every peer it was addressed to at least once)",
    ]
    from concurrent.futures import ThreadPoolExecutor
    with ThreadPoolExecutor(max_workers=4) as ex:       # a timeout under load is exit 2, not a verdict: generous bounds
        dres = list(ex.map(lambda j: c.tlc("Gossip", "Gossip", j[0], workers=4, timeout=max(j[1], 1500), name="design-" + j[0][:-4]),
                           prof["design"]))
    for (cfg, tmo), r in zip(prof["design"], dres):
        if r.violated:
            c.notes.append("design-level counterexample in %s: %s" % (cfg, r.violated))
        elif not r.ok:
            raise Broken("TLC did not complete on %s: %s" % (cfg, r.error_text[-600:]))
    scheds = []
    for cfg, inst, num, depth in prof["gen"]:
        seen = {}

        def on_line(line, seen=seen):
            try:
                h = json.loads(line)
                if isinstance(h, str):
                    h = json.loads(h)
            except ValueError:
                return
            cmds = [x for x in h if x["a"] != "Pad"]
            key = json.dumps(cmds, sort_keys=True)
            seen.setdefault(key, cmds)
        c.tlc("Gossip", "GossipSim", cfg, workers=8, simulate="num=%d" % num, depth=depth, seed=c.seed, timeout=900,
              line_cb=on_line, name="gen-" + cfg[:-4])
        for k in sorted(seen):
            scheds.append({"id": "%s-%d" % (cfg[:-4], len(scheds)), "inst": inst, "late": ["a"] if cfg.startswith("sim_gj") else [],
                           "cmds": seen[k]})
    if not scheds:
        raise Broken("no behaviours generated")
    # constructed: a peer's shard set changes its members but not its size between two state pushes (swap), also via a third
    # instance; the views must follow (clause mergeview)
    def C(i, sh): return {"a": "Claim", "i": i, "sh": sh}
    def R(i, sh): return {"a": "Release", "i": i, "sh": sh}
    def S(i, j, v): return {"a": "Snapshot", "i": i, "j": j, "val": v}
    def M(i, j, v): return {"a": "Merge", "i": i, "j": j, "val": v}
    swaps = [
        {"id": "swap-2", "inst": ["a", "b"], "late": [], "cmds": [C("a", 1), S("a", "b", 0), M("a", "b", 0), R("a", 1), C("a", 2), S("a", "b", 1), M("a", "b", 1)]},
        {"id": "swap-3", "inst": ["a", "b", "c"], "late": [], "cmds": [C("b", 1), S("b", "a", 0), M("b", "a", 0), R("b", 1), C("c", 1), S("c", "a", 1), M("c", "a", 1),
                                                                      C("b", 2), S("b", "a", 2), M("b", "a", 2)]},
        {"id": "swap-grow", "inst": ["a", "b"], "late": [], "cmds": [C("a", 1), S("a", "b", 0), M("a", "b", 0), C("a", 2), S("a", "b", 1), M("a", "b", 1), R("a", 1),
                                                                     S("a", "b", 2), M("a", "b", 2)]},
    ]
    if len(scheds) > prof["limit"]:
        scheds = random.Random(c.seed).sample(scheds, prof["limit"])
    scheds = swaps + scheds
    # routing decision table
    cases = []

    def on_case(line):
        try:
            d = json.loads(line)
            if isinstance(d, str):
                d = json.loads(d)
            d["id"] = len(cases) + 1
            cases.append(d)
        except ValueError:
            pass
    c.tlc("Gossip", "GossipRoute", "route.cfg", workers=1, timeout=600, line_cb=on_case, name="route-cases")
    if len(cases) < 200:
        raise Broken("routing decision table not generated (%d cases)" % len(cases))
    binpath = c.go_test_build("proxy", HARNESS, name="gossip")
    nshard = min(NCPU, max(2, len(scheds) // 25))
    files = []
    for i in range(nshard):
        p = os.path.join(c.scratch, "gossip-in-%d.ndjson" % i)
        with open(p, "w") as f:
            for s in scheds[i::nshard]:
                f.write(json.dumps(s) + "\n")
            for rc in cases[i::nshard]:
                f.write(json.dumps({"route": rc}) + "\n")
        files.append(p)
    res = c.run_shards(binpath, "^TestVerifGossipSchedules$", files, os.path.join(c.scratch, "gossip-out"), timeout=900)
    events = []
    for rc, out, outp in res:
        if rc != 0 or not os.path.exists(outp):
            if c.crash_verdict("Gossip", rc, outp):
                continue
            raise Broken("harness shard failed rc=%s: %s" % (rc, out[-1500:]))
        for line in open(outp):
            events.append(json.loads(line))
    # real memberlist instances over memberlist's in-process transport: real Join, real Leave, callbacks invoked by memberlist
    rl_out = os.path.join(c.scratch, "realleave.ndjson")
    rc, txt = c.go_test("proxy", HARNESS, "^TestVerifGossipRealLeave$", env={"VERIF_OUT": rl_out}, timeout=600, name="realleave")
    if rc != 0 or not os.path.exists(rl_out):
        raise Broken("real-memberlist probe failed: " + txt[-1500:])
    real = [json.loads(l) for l in open(rl_out)]
    if len(real) != 4:
        raise Broken("real-memberlist probe returned %d records" % len(real))
    events += real
    rc_out = os.path.join(c.scratch, "realclaim.ndjson")
    rc, txt = c.go_test("proxy", HARNESS, "^TestVerifGossipRealClaim$", env={"VERIF_OUT": rc_out}, timeout=600, name="realclaim")
    if rc != 0 or not os.path.exists(rc_out):
        raise Broken("real-memberlist claim probe failed: " + txt[-1500:])
    realc = [json.loads(l) for l in open(rc_out)]
    if len(realc) != 4:
        raise Broken("real-memberlist claim probe returned %d records" % len(realc))
    if any(not e["joined"] or not e["claimed"] for e in realc):
        raise Broken("real-memberlist claim probe: the instances did not get to know each other: %s" % json.dumps(realc)[:600])
    events += realc
    lines = [json.dumps(e) for e in events]
    ro = c.tlc("Gossip", "GossipObs", "obs.cfg", workers=1, timeout=1200, files={"trace.ndjson": "\n".join(lines) + "\n"}, name="obs")
    text = open(ro.out).read()
    m = re.search(r'<<\s*"OBS_VIOLATIONS",\s*(\{.*?\})\s*>>\s*\n<<\s*"OBS_TRACE_LEN"', text, re.S)
    if not m or not ro.ok:
        raise Broken("GossipObs did not report: " + ro.error_text[-1200:])
    # split into runs for reporting
    run_of = []
    cur = -1
    runs = []
    for e in events:
        if e["ev"] == "Config":
            runs.append([])
            cur = len(runs) - 1
        if e["ev"] in ("Route", "RealLeave", "RealClaim"):
            run_of.append(None)
        else:
            run_of.append(cur)
            if cur >= 0:
                runs[cur].append(e)
    nviol_runs = set()
    causes = {}
    for g in OBS_RE.finditer(m.group(1)):
        ln, clause, x, y = int(g.group(1)), g.group(2), int(g.group(3)), int(g.group(4))
        e = events[ln - 1]
        if clause == "route":
            c.violation({"module": "Gossip", "clause": "route"}, "routing decision differs from the spec: %s" % json.dumps(e),
                        {"kind": "route-case", "event": e})
            continue
        if clause == "realclaim":
            c.violation({"module": "Gossip", "clause": "realclaim", "variant": e["variant"]},
                        "real announcement path: after a claimed the shard and b claimed it later the owners are %s (%s)" % (e["owners"], json.dumps(e)),
                        {"kind": "real-claim", "event": e})
            continue
        if clause == "realleave":
            cause = "memberlist-callback-deadlock" if (not e["left"] or not e["responsive"]) else "left-instance-not-forgotten"
            c.violation({"module": "Gossip", "clause": "realleave", "cause": cause},
                        "real memberlist leave: %s" % json.dumps(e), {"kind": "real-leave", "event": e})
            continue
        ri = run_of[ln - 1]
        nviol_runs.add(ri)
        r = runs[ri]
        cause = "other"
        if clause == "leftowns":
            cause = "merge-after-leave"
        elif clause == "mergeview":
            cause = "merged-state-not-recorded"
        elif clause == "owner":
            owners = [n for n, v in e["view"].items() if x in v["local"]]
            cause = "no-owner-mutual-eviction" if not owners else "several-or-stale-owner"
        causes[cause] = causes.get(cause, 0) + 1
        c.violation({"module": "Gossip", "clause": clause, "cause": cause},
                    "%s (%s) at quiescence of run %s: %s" % (clause, cause, r[0].get("id"), json.dumps(e)[:300]),
                    {"kind": "gossip-trace", "clause": clause, "cause": cause, "trace": r})
    unreal = sum(1 for r in runs if any(e["ev"] == "Unrealised" for e in r))
    if unreal > 0.2 * max(1, len(runs)):
        raise Broken("%d of %d schedules could not be realised" % (unreal, len(runs)))
    acts = {}
    for r in runs:
        for e in r:
            if e["ev"] == "Step" and e["ok"]:
                acts[e["a"]] = acts.get(e["a"], 0) + 1
    c.coverage.update({
        "schedules_replayed": len(runs), "unrealised": unreal, "events_validated": len(lines),
        "route_cases": len(cases), "runs_with_violation": len(nviol_runs), "violation_causes": causes,
        "steps_by_action": acts, "evaluations": len(runs) + len(cases), "distinct_nontrivial": len(scheds),
        "rule": "distinct TLC-simulated delivery schedules among 2-3 instances and 1-2 shards (claims, releases, duplicated / "
                "delayed announcements, state pushes, leaves), each completed to quiescence; plus the complete routing decision table",
    })
    # the intra-proxy peer streams behind "handed to the known remote owner" (module IntraProxy: real managers over real gRPC)
    import p_intraproxy
    c.coverage["intraproxy"] = p_intraproxy.run_extra(c)
    samples = [{"schedule": scheds[0], "quiet": [e for e in runs[0] if e["ev"] == "Quiet"]}, {"route_case": cases[0]}]
    return c.finish(samples, traces_validated=len(runs) - len(nviol_runs))
