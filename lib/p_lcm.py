"""C07 -- LCM mode presents one consistent shard space to both clusters (spec/LcmMap).

1. TLC checks the design (code model of common.GCD/LCM, MapShardID, mapShardIDUnique, getLCMParameters, the
   DescribeCluster override and the LCM branch of handleStream) against the definitional properties, exhaustively for
   l, r in 1..MaxCount, every LCM shard id, hash residues 0..2L-1.  A seeded design error (directions exchanged) must be
   reported by the same invariants (non-vacuity).
2. Binding: for every (l, r) of the pair list a REAL ClusterConnection in LCM mode is built between two fake clusters;
   the real common.GCD/LCM, DescribeCluster (both servers), the stream handler (real grpc path for boundary ids, the
   real registered server object with a capturing upstream client for the bulk), mapShardIDUnique and
   WorkflowIDToHistoryShard are evaluated; one NDJSON record per (l, r, direction, shard id).  TLC (LcmMapObs) judges
   every record.
3. Two further dimensions of the binding (the design's Map is a function of the id alone, and the shard-count override is
   independent of the other response translation):
   - arrival order: for pairs with LCM > 1024 fresh server objects are opened with a high id first and then every id of
     1000..1024+SWEEP ascending, descending and in seeded random order, plus state-guided opens at the borders (len, cap)
     of the counter slice the server object has at that moment;
   - failoverVersionIncrementTranslation configured on neither / the local / the remote / both sides, by pair.
"""
import json
import os
import re
import shutil
import subprocess
import threading

from vlib import Broken, NCPU, ROOT, log

PROPS = {"C07": "model_checking"}
MANIFEST = {"C07": dict(
    engine="LcmMap", category="model_checking", design_ref="3.6",
    technique="TLA+ spec of LCM mode (LcmMap.tla: definitional Gcd/Lcm/Owner/Map next to a transcription of common.GCD/LCM, "
              "Temporal's MapShardID, mapShardIDUnique, getLCMParameters, the DescribeCluster override and the LCM branch of "
              "handleStream) model-checked by TLC for all l, r <= 16 (thorough 48), every LCM shard id and hash residues "
              "0..2L-1; the real functions, both servers of a NewClusterConnection-built LCM configuration (grpc end to end for "
              "boundary ids, the real registered server object with a capturing upstream client for the bulk) and the real "
              "WorkflowIDToHistoryShard are evaluated per (l, r, direction, shard id) and every record is judged by TLC "
              "(LcmMapObs.tla)",
    text="Exhaustive within the small model: reported count = lcm in both directions, server shard in 1..count, client shard = s, "
         "hash consistency over two periods of residues, MapShardID single-valued. On the real code: all pairs <= 16 with "
         "every LCM shard id, all pairs of powers of two <= 16384, {3*2^k} x {2^j} in both orders, {1000,4000,4096,5000,"
         "10000,16384}^2 with boundary ids and seeded samples (half of them owners of random workflow ids under the real hash). "
         "Arrival order of the ids on one server object (high id first, then contiguous ascending / descending / random sweeps "
         "across the growth of the stream observer, state-guided opens at its len/cap borders) and the FVI translation "
         "(none / local / remote / both) are dimensions of the binding.",
    note="Trusted: TLC, the fake clusters (grpc servers that record stream metadata), reflection into grpc.Server to reach the "
         "registered service object, in-package reads of len/cap of ReplicationStreamObserver.streamActive (input selection "
         "only). A stream open counts as failed only after 20 s (60 s for ids > 2^24, which allocate up to 1 GB of counters).")}
HARNESS = ["zz_verif_lcm_test.go"]
OBS_RE = re.compile(r'<<(\d+), "(\w+)">>')
SIX = [1000, 4000, 4096, 5000, 10000, 16384]
ALL_IDS_UP_TO = 4096       # thorough: every LCM shard id of a big pair when the LCM is at most this (DESIGN: 2*10^5, see C07.md)
SAMPLES_THOROUGH = 1000    # thorough: sampled ids otherwise (DESIGN: 10^4)
CHUNK = 120000             # records per LcmMapObs run
# arrival order as a dimension (the design's Map is a function of the id alone): pairs with LCM > 1024 whose server objects are
# driven with a high id first + ascending / descending / seeded random sweeps over 1000..1024+SWEEP (harness: vlPair.Sweep)
ORDER_PAIRS = [(3, 1024), (1024, 3), (5, 512), (512, 5), (1024, 2048), (4096, 10000), (12288, 16384), (16384, 1000)]
SWEEP = {"quick": 2500, "thorough": 6000}
FRONTIER = {"quick": 12, "thorough": 40}     # state-guided opens per server object for every big pair (vlPair.Frontier)
FVI_VARIANTS = [[0, 0], [10, 0], [0, 20], [10, 20]]
EXTREME = [(16384, 14565), (14565, 16384)]     # LCM = 238632960: the first LCM shard ids the stream observer cannot count


def pair_list(tier):
    """The (l, r) pairs and how many LCM shard ids of each are tried (DESIGN 3.6).  Input, not oracle."""
    thorough = tier == "thorough"
    pairs = []
    for l in range(1, 17):
        for r in range(1, 17):
            pairs.append(dict(l=l, r=r, mode="all", n=0, grpc=8 if thorough else 4))
    pow2 = [2 ** k for k in range(0, 15)]
    three = [3 * 2 ** k for k in range(0, 13)]
    big = []
    for l in pow2:
        for r in pow2:
            if l > 16 or r > 16:
                big.append((l, r))
    for a in three:
        for b in pow2:
            if a > 16 or b > 16:
                big.append((a, b))
                big.append((b, a))
    for a in SIX:
        for b in SIX:
            big.append((a, b))
    big += ORDER_PAIRS
    seen = set()
    nbig = 0
    for (l, r) in big:
        if (l, r) in seen:
            continue
        seen.add((l, r))
        lcm = l * r // gcd(l, r)
        if thorough and lcm <= ALL_IDS_UP_TO:
            pr = dict(l=l, r=r, mode="all", n=0, grpc=8)
        else:
            pr = dict(l=l, r=r, mode="sample", n=SAMPLES_THOROUGH if thorough else 24, grpc=8 if thorough else 3)
        if lcm > 1024:
            nbig += 1
            pr["frontier"] = FRONTIER[tier]
            if (l, r) in ORDER_PAIRS or (thorough and nbig % 12 == 0):
                pr["sweep"] = SWEEP[tier]
        pairs.append(pr)
    for (l, r) in EXTREME:
        pairs.append(dict(l=l, r=r, mode="boundary", n=0, grpc=0))
    # configuration dimension: the other response translation of DescribeCluster (failoverVersionIncrementTranslation) is
    # configured on neither / the local / the remote / both sides; it must not interfere with the shard-count override
    for p in pairs:
        p["fvi"] = FVI_VARIANTS[(p["l"] * 31 + p["r"]) % 4]
    return pairs


def gcd(a, b):
    while b:
        a, b = b, a % b
    return a


def tlaps(c):
    """Attempt the divisibility lemma with TLAPS under a timeout; returns a dict for the evidence."""
    exe = shutil.which("tlapm")
    if not exe:
        return {"attempted": False, "reason": "tlapm not installed"}
    work = os.path.join(c.scratch, "tlaps")
    os.makedirs(work, exist_ok=True)
    shutil.copy(os.path.join(ROOT, "spec", "LcmMap", "LcmLemma.tla"), work)
    try:
        p = subprocess.run(["timeout", "120", exe, "LcmLemma.tla"], cwd=work, stdout=subprocess.PIPE,
                           stderr=subprocess.STDOUT, text=True, timeout=150)
    except subprocess.TimeoutExpired:
        return {"attempted": True, "result": "timeout"}
    m = re.search(r"(\d+)/(\d+) obligations failed", p.stdout)
    if m:
        return {"attempted": True, "obligations": int(m.group(2)), "discharged": int(m.group(2)) - int(m.group(1)),
                "undischarged": "ModUnique (uniqueness of quotient and remainder for a symbolic positive divisor -- the "
                                "defining property of %); the lemma ModMod itself is proved from it"}
    m = re.search(r"All (\d+) obligations? proved", p.stdout)
    if m:
        return {"attempted": True, "obligations": int(m.group(1)), "discharged": int(m.group(1))}
    return {"attempted": True, "result": "unparsed", "tail": p.stdout[-300:]}


def is_overflow(rec):
    d = rec.get("detail", "")
    return rec.get("fail") == "panic" and ("cannot be negative" in d or "index out of range" in d)


def classify(rec, clause, after_overflow=False):
    """Cause-level signature of a violating record."""
    cause = clause
    if clause == "noresult":
        d = rec.get("detail", "")
        if rec.get("fail") == "hang":
            # a hang that follows an observer overflow on the same server object is the same defect (lock left held)
            cause = "stream-observer-overflow" if after_overflow else "stream-open-hangs"
        elif "cannot be negative" in d or ("index out of range" in d and rec.get("s", 0) >= 238609294):
            cause = "stream-observer-overflow"
        elif "index out of range" in d:
            cause = "stream-observer-index-out-of-range"
        elif "remapping shard count" in d or "cannot map shard ID" in d:
            cause = "map-not-unique"
        else:
            cause = "stream-open-" + rec.get("fail", "fails")
    return {"module": "LcmMap", "clause": clause, "cause": cause}


def run(c, a):
    thorough = c.tier == "thorough"
    c.assumptions += [
        "supported shard counts are 1..16384 (a*b < 2^31, so common.LCM's int32 product is exact)",
        "the fake clusters stand for Temporal: they answer DescribeCluster with their own shard count and accept any stream",
        "bulk records use the real registered adminServiceProxyServer (reached by reflection in the real grpc.Server) "
        "copied with only adminClient replaced by a capturing fake; boundary ids go through real grpc end to end",
        "the fast Euclid-based Lcm used by LcmMapObs is checked against the definition (IsGcd/IsLcm) on the fn record of "
        "every pair of the trace",
    ]
    # ---- 1. design
    cfg = "lcm48.cfg" if thorough else "lcm16.cfg"
    r = c.tlc("LcmMap", "LcmMap", cfg, workers=12, timeout=1500 if thorough else 240, name="design")
    if r.violated:
        raise Broken("design-level counterexample (%s): the spec of the current code is expected to hold; see %s"
                     % (r.violated, r.out))
    if not r.ok:
        raise Broken("TLC did not complete: " + r.error_text[-600:])
    design_states = r.distinct
    rs = c.tlc("LcmMap", "LcmMap", "lcm_swapped.cfg", workers=4, timeout=120, name="design-swapped")
    if not rs.violated:
        raise Broken("seeded design error (SwapDirs) not reported: invariants are vacuous")
    rf = c.tlc("LcmMap", "LcmMap", "lcm_fviexcl.cfg", workers=4, timeout=120, name="design-fviexcl")
    if not rf.violated:
        raise Broken("seeded design error (FviExcl) not reported: ReportedOK does not see the translation overrides")
    proof = tlaps(c) if thorough else {"attempted": False, "reason": "thorough tier only"}
    # ---- 2. binding
    pairs = pair_list(c.tier)
    if a.replay:
        rp = json.load(open(a.replay))
        rec = rp["record"]
        if rec.get("order", "base") != "base" and rp.get("arrival"):
            # an arrival-order scenario: the same ids in the same order on a fresh server object
            pairs = [dict(l=rec["l"], r=rec["r"], mode="ids", ids=rp["arrival"], n=0, grpc=0, order=rec["order"])]
        else:
            pairs = [dict(l=rec["l"], r=rec["r"], mode="ids", ids=[rec.get("s", 1)], n=0,
                          grpc=1 if rec.get("path") == "grpc" else 0)]
        for p in pairs:
            p["fvi"] = FVI_VARIANTS[(p["l"] * 31 + p["r"]) % 4]
    binpath = c.go_test_build("proxy", HARNESS, name="lcm")
    # cost-balanced shards: pairs with many ids first, round robin
    def cost(p):
        lcm = p["l"] * p["r"] // gcd(p["l"], p["r"])
        sweep = 3 * min(p.get("sweep", 0) + 24, max(0, lcm - 1000)) if p.get("sweep") else 0
        return 2 * ((lcm if p["mode"] == "all" else p["n"] + 8) + sweep + p.get("frontier", 0)) + 30
    if a.replay:
        cost = lambda p: 1     # noqa
    order = sorted(range(len(pairs)), key=lambda i: -cost(pairs[i]))
    nshard = max(1, min(NCPU, 12, len(pairs)))
    files = []
    shard_pairs = [[] for _ in range(nshard)]
    for k, i in enumerate(order):
        shard_pairs[k % nshard].append(pairs[i])
    for i in range(nshard):
        p = os.path.join(c.scratch, "lcm-in-%d.ndjson" % i)
        with open(p, "w") as f:
            for x in shard_pairs[i]:
                f.write(json.dumps(x) + "\n")
        files.append(p)
    res = c.run_shards(binpath, "^TestVerifLcm$", files, os.path.join(c.scratch, "lcm-out"), timeout=800,
                       env={"VERIF_BASE_SEED": str(c.seed), "VERIF_PAR": "2"})
    chunks = []
    for rc, out, outp in res:
        if rc != 0 or not os.path.exists(outp):
            if c.crash_verdict("LcmMap", rc, outp):
                continue
            raise Broken("harness shard failed rc=%s: %s" % (rc, out[-1500:]))
        lines = open(outp).read().split("\n")
        if lines and lines[-1] == "":
            lines.pop()
        for b in range(0, max(1, len(lines)), CHUNK):
            chunks.append("\n".join(lines[b:b + CHUNK]) + "\n")
        os.remove(outp)
    # ---- 3. TLC judges every record (one TLC run per shard, in parallel)
    results = [None] * len(chunks)

    def judge(k):
        try:
            results[k] = c.tlc("LcmMap", "LcmMapObs", "obs.cfg", workers=1, timeout=1500, files={"trace.ndjson": chunks[k]},
                               name="obs-%d" % k, heap="3g")
            os.remove(os.path.join(c.scratch, "tlc-obs-%d" % k, "trace.ndjson"))
        except Exception as ex:   # noqa
            results[k] = ex
    par = 6
    for base in range(0, len(chunks), par):
        ths = [threading.Thread(target=judge, args=(k,)) for k in range(base, min(base + par, len(chunks)))]
        for t in ths:
            t.start()
        for t in ths:
            t.join()
    nrec = not_run = 0
    by_kind, by_path, clauses = {}, {}, {}
    by_order, gap_hits, growths, by_fvi = {}, {}, {}, {}
    nontrivial = set()
    with_wf = 0
    viol_pairs = set()
    sample_recs = []
    for k, ro in enumerate(results):
        if isinstance(ro, Exception):
            raise Broken("LcmMapObs run %d failed: %s" % (k, ro))
        text = open(ro.out).read()
        m = re.search(r'<<\s*"OBS_VIOLATIONS",\s*(\{.*?\})\s*>>\s*\n<<\s*"OBS_TRACE_LEN",\s*(\d+)\s*>>', text, re.S)
        lines = chunks[k].split("\n")
        if lines and lines[-1] == "":
            lines.pop()
        if not m or not ro.ok or int(m.group(2)) != len(lines):
            raise Broken("LcmMapObs did not report on shard %d: %s" % (k, ro.error_text[-1200:]))
        nrec += len(lines)
        overflowed_at = {}
        prev_shape = {}        # server object -> (len, cap) of its counter slice after the previous open
        arrivals = {}          # server object -> line numbers of its opens, in arrival order
        for n, ln in enumerate(lines):
            e = json.loads(ln)
            if e["ev"] == "stream":
                so = (e["l"], e["r"], e["dir"], e.get("order", "base"))
                arrivals.setdefault(so, []).append(n)
                by_order[so[3]] = by_order.get(so[3], 0) + 1
                pl, pc = prev_shape.get(so, (1 << 60, 0))
                if pl <= e["s"] < pc:
                    gap_hits[so[3]] = gap_hits.get(so[3], 0) + 1     # the id fell between len and cap left by an earlier growth
                if e.get("obsLen", -1) >= 0:
                    if so in prev_shape and e["obsLen"] != prev_shape[so][0]:
                        growths[so[3]] = growths.get(so[3], 0) + 1
                    prev_shape[so] = (e["obsLen"], e["obsCap"])
            if e["ev"] == "stream" and is_overflow(e):
                overflowed_at.setdefault((e["l"], e["r"], e["dir"]), n + 1)
            if e["ev"] == "stream" and e["fail"] == "skipped-wedged":
                not_run += 1
            by_kind[e["ev"]] = by_kind.get(e["ev"], 0) + 1
            if e["ev"] == "describe":
                k = "local=%d remote=%d" % (e.get("fviLocal", 0), e.get("fviRemote", 0))
                by_fvi[k] = by_fvi.get(k, 0) + 1
            if e["ev"] == "stream":
                by_path[e["path"]] = by_path.get(e["path"], 0) + 1
                c_own = e["l"] if e["dir"] == "inbound" else e["r"]
                if e["fail"] == "" and e["s"] > c_own:      # the mapping is not the identity for this id
                    nontrivial.add((e["l"], e["r"], e["dir"], e["s"]))
                if e["wf"]:
                    with_wf += 1
                if len(sample_recs) < 2 and e["s"] > c_own and e["wf"]:
                    sample_recs.append(e)
        for g in OBS_RE.finditer(m.group(1)):
            ln, clause = int(g.group(1)), g.group(2)
            e = json.loads(lines[ln - 1])
            if clause == "specarith":
                raise Broken("LcmMapObs: fast Lcm/Gcd disagree with the definition on %s" % e)
            clauses[clause] = clauses.get(clause, 0) + 1
            viol_pairs.add((e["l"], e["r"]))
            rp = {"kind": "lcm-record", "clause": clause, "record": e,
                  "how": "./check C07 --replay <this file>: the pair of this record, for an arrival-order scenario the same "
                         "ids in the same order on a fresh server object"}
            if e["ev"] == "stream" and e.get("order", "base") != "base" and len(c.violations) < 3:   # only these are written out
                so = (e["l"], e["r"], e["dir"], e["order"])
                rp["arrival"] = [json.loads(lines[x])["s"] for x in arrivals[so] if x <= ln - 1]
            c.violation(classify(e, clause, overflowed_at.get((e["l"], e["r"], e.get("dir")), 1 << 60) < ln),
                        "clause %s violated by the real code: %s" % (clause, json.dumps(e)[:400]), rp)
    if nrec == 0 or by_kind.get("stream", 0) == 0:
        raise Broken("no records")
    c.coverage.update({
        "pairs": len(pairs), "records_validated": nrec, "records_by_kind": by_kind, "stream_records_by_path": by_path,
        "stream_records_by_arrival_order": by_order, "observer_growths_seen_by_order": growths,
        "opens_between_len_and_cap_of_an_earlier_growth": gap_hits,
        "stream_records_with_workflow_ids": with_wf, "stream_records_not_run_server_wedged": not_run, "violating_clauses": clauses,
        "pairs_with_violation": len(viol_pairs), "design_states": design_states, "design_cfg": cfg,
        "seeded_design_error_reported": rs.violated + rf.violated, "describe_records_by_fvi_translation": by_fvi, "tlaps": proof,
        "evaluations": nrec, "distinct_nontrivial": len(nontrivial),
        "rule": "one record per (l, r, direction, LCM shard id): all ids for l,r<=16%s, boundary ids {1,L,c,c+1,L-c+1} plus "
                "seeded samples (half of them owners of random workflow ids) for powers of two and mixed composites up to 16384; "
                "arrival order: for %d pairs with LCM>1024 fresh server objects get a high id first and then 1000..1024+%d ascending, "
                "descending and in seeded random order, and every big pair gets %d state-guided opens at the borders (len, cap) of "
                "the server's counter slice; non-trivial = distinct (l,r,dir,s) with s > own count of the serving cluster (the remap is not the identity) "
                "that produced a result" % (" and every pair with LCM<=%d" % ALL_IDS_UP_TO if thorough else "",
                                            sum(1 for x in pairs if x.get("sweep")), SWEEP[c.tier], FRONTIER[c.tier]),
        "exhaustive": False,
    })
    samples = sample_recs or [json.loads(chunks[0].split("\n")[2])]
    return c.finish(samples, traces_validated=len(pairs) - len(viol_pairs))


def load_proposed(pid):
    p = os.path.join(ROOT, "proposed", "%s-known.json" % pid)
    if not os.path.exists(p):
        return []
    with open(p) as f:
        return json.load(f)
