"""C09, module IntraProxy -- the intra-proxy peer streams of proxy/intra_proxy_router.go (spec/IntraProxy).

Not a property module of its own (C09 is owned by lib/p_gossip.py): the owner calls run_extra(c) with its Check object.
Stand-alone run for development:

  python3 -c "import sys; sys.path.insert(0,'/verif/lib'); import vlib, p_intraproxy; \
      c=vlib.Check('C09','quick',1,'model_checking'); print(p_intraproxy.run_extra(c)); \
      print(c.known_hits); print(c.violations)"
"""
import json
import os
import random
import re

from vlib import Broken, NCPU, ROOT, log

HARNESS = ["zz_verif_intraproxy_test.go"]
MODULE = "IntraProxy"
# (cfg, timeout, expect_ok): the repaired design must hold; the pinned design (the tree as it was found) is expected to fail --
# its counterexamples are the ones the replay reproduces on the real code (known findings below)
PROFILES = {
    "quick": dict(design=[("ip_fixed_q.cfg", 400, True), ("ip_fixed_ack.cfg", 400, True), ("ip_ackdrop.cfg", 400, False), ("ip_pinned_q.cfg", 400, False)],
                  gen=[("sim_2w.cfg", ["a", "b"], 120, 260), ("sim_2c.cfg", ["a", "b"], 60, 260), ("sim_3w.cfg", ["a", "b", "c"], 40, 260)],
                  limit=150),
    "thorough": dict(design=[("ip_fixed_q.cfg", 400, True), ("ip_fixed_msg.cfg", 900, True), ("ip_fixed_t.cfg", 900, True),
                             ("ip_fixed_live.cfg", 900, True), ("ip_fixed_3.cfg", 900, True), ("ip_fixed_ack.cfg", 400, True), ("ip_ackdrop.cfg", 400, False), ("ip_pinned_q.cfg", 400, False)],
                     gen=[("sim_2w.cfg", ["a", "b"], 1500, 260), ("sim_2c.cfg", ["a", "b"], 600, 260), ("sim_3w.cfg", ["a", "b", "c"], 900, 260)],
                     limit=2400),
}
OBS_RE = re.compile(r'<<(\d+), "(\w+)", (-?\d+), (-?\d+)>>')


def _constructed():
    """Deterministic scenarios (one per mechanism of the module) that are replayed besides the generated behaviours."""
    def A(i, sh): return {"a": "AddLocal", "i": i, "sh": sh}
    def R(i, sh): return {"a": "RemoveLocal", "i": i, "sh": sh}
    def V(i, j, S): return {"a": "SetView", "i": i, "j": j, "set": S}
    def Rec(i): return {"a": "Reconcile", "i": i}
    def CE(i, j, t, s): return {"a": "CliExit", "i": i, "j": j, "t": t, "s": s}
    def SE(i, j, t, s): return {"a": "SrvExit", "i": i, "j": j, "t": t, "s": s}
    def RM(i, t, s): return {"a": "RouteMsg", "i": i, "t": t, "s": s}
    def RA(i, t, s): return {"a": "RouteAck", "i": i, "t": t, "s": s}
    up = [A("a", 11), A("b", 21), V("a", "b", [21]), V("b", "a", [11]), Rec("a"), Rec("b")]
    ab = ["a", "b"]
    return [
        {"id": "c-basic", "inst": ab, "cmds": up + [RM("b", 11, 21), RA("a", 11, 21), RM("a", 21, 11), RA("b", 21, 11), R("a", 11), Rec("a"),
                                                     SE("a", "b", 11, 21), CE("a", "b", 11, 21), Rec("b")]},
        {"id": "c-late-view", "inst": ab, "cmds": [A("a", 11), A("b", 21), V("a", "b", [21]), Rec("a"), Rec("b"), V("b", "a", [11]), Rec("b"), RM("b", 11, 21)]},
        {"id": "c-server-exit-late", "inst": ab, "cmds": up + [R("a", 11), Rec("a"), CE("a", "b", 11, 21), A("a", 11), Rec("a"), SE("a", "b", 11, 21), RM("b", 11, 21)]},
        {"id": "c-client-exit-late", "inst": ab, "cmds": up + [R("a", 11), Rec("a"), SE("a", "b", 11, 21), A("a", 11), Rec("a"), CE("a", "b", 11, 21), RA("a", 11, 21), Rec("a")]},
        {"id": "c-slow-connect", "inst": ab, "cmds": [A("a", 11), A("b", 21), V("a", "b", [21]), V("b", "a", [11]), {"a": "Hold", "j": "b"}, Rec("a"), Rec("a"),
                                                      {"a": "Unhold", "j": "b"}, RM("b", 11, 21)]},
        {"id": "c-shard-moves", "inst": ["a", "b", "c"], "cmds": up + [R("b", 21), A("c", 21), V("a", "b", [12]), V("a", "c", [21]), Rec("a"), Rec("b"), Rec("c"), RA("a", 11, 21)]},
        {"id": "c-break", "inst": ab, "cmds": up + [{"a": "Break", "i": "a", "j": "b"}, Rec("a"), CE("a", "b", 11, 21), SE("a", "b", 11, 21), Rec("a"), RM("b", 11, 21), RA("a", 11, 21)]},
        {"id": "c-break-server-exit-late", "inst": ab, "cmds": up + [{"a": "Break", "i": "a", "j": "b"}, CE("a", "b", 11, 21), Rec("a"), SE("a", "b", 11, 21), RM("b", 11, 21)]},
        {"id": "c-leave", "inst": ab, "cmds": up + [{"a": "Leave", "i": "a", "j": "b"}, Rec("a"), RA("a", 11, 21), SE("a", "b", 11, 21), CE("a", "b", 11, 21), Rec("b")]},
        {"id": "c-owner-lost-shard", "inst": ab, "cmds": up + [R("b", 21), RM("a", 21, 11), Rec("b"), Rec("a")]},
        # back-pressure: the local consumer of the target (source) shard is stalled while messages (acks) arrive from the peer
        {"id": "c-backpressure-msg", "inst": ab, "cmds": up + [{"a": "Stall", "i": "a", "sh": 11}, RM("b", 11, 21), RM("b", 11, 21), RM("b", 11, 21), RM("b", 11, 21),
                                                                {"a": "Unstall", "i": "a", "sh": 11}, RM("b", 11, 21)]},
        {"id": "c-backpressure-ack", "inst": ab, "cmds": up + [{"a": "Stall", "i": "b", "sh": 21}, RA("a", 11, 21), RA("a", 11, 21), RA("a", 11, 21), RA("a", 11, 21),
                                                                {"a": "Unstall", "i": "b", "sh": 21}, RA("a", 11, 21)]},
        {"id": "c-backpressure-both", "inst": ab, "cmds": up + [{"a": "Stall", "i": "a", "sh": 11}, RM("b", 11, 21), RA("b", 21, 11), RM("b", 11, 21), RA("b", 21, 11), RM("b", 11, 21),
                                                                 {"a": "Unstall", "i": "a", "sh": 11}, {"a": "Stall", "i": "a", "sh": 11}, RM("b", 11, 21), RM("b", 11, 21)]},
        # an ack forwarded over an open stream to an owner that has lost its local ack channel meanwhile (stale ownership at the forwarder)
        {"id": "c-ack-no-channel", "inst": ab, "cmds": up + [R("b", 21), RA("a", 11, 21), RA("a", 11, 21), Rec("a"), Rec("b")]},
        {"id": "c-ack-no-channel-readd", "inst": ab, "cmds": up + [RA("a", 11, 21), R("b", 21), RA("a", 11, 21), A("b", 21), Rec("a"), RA("a", 11, 21)]},
        {"id": "c-two-pairs", "inst": ab, "cmds": [A("a", 11), A("a", 12), A("b", 21), V("a", "b", [21]), V("b", "a", [11, 12]), Rec("a"), Rec("b"), RM("b", 11, 21), RM("b", 12, 21),
                                                   RA("a", 12, 21), R("a", 12), Rec("a"), RM("b", 11, 21)]},
    ]


def _load_known(c):
    """known findings come from /verif/KNOWN_FINDINGS.json only (vlib)"""
    return


def _desired_other_peer(e, x, kind):
    """is the key of table entry x = [i, p, t, s] desired at i for another peer than p (by i's own local shards x view)?"""
    i, p, t, s = x[0], x[1], x[2], x[3]
    local = {sh for (n, sh) in map(tuple, e["local"]) if n == i}
    for (n, q, sh) in map(tuple, e["view"]):
        if n != i or q == p:
            continue
        if kind == "recv" and t in local and sh == s:
            return True
        if kind == "send" and s in local and sh == t:
            return True
    return False


def _roots(run):
    """First appearance of a stream end that runs outside its table, attributed to the command of that event.

    Returns {(t, s): [(event index, cause)]}. Causes (see proposed/C09-intraproxy.md):
      sender-pruned-stream-kept           the server's own reconciliation pass dropped the sender entry of a serving stream
      unregister-clobbers-successor       a server-side cleanup (deferred UnregisterSender) removed another stream's entry
      receiver-cleanup-clobbers-successor a client-side cleanup (ensureStream goroutine) removed another receiver's entry
      reopened-while-opening              a pass created a second receiver while the first was still opening
      duplicate-stream                    a consequence of one of the above: the pair got a second stream, the peer's table names the newer
    """
    out = {}
    prev_s, prev_c = set(), set()
    was_opening = set()      # pairs whose table entry was seen without a stream (still opening) and has not been seen settled since
    for idx, e in enumerate(run):
        if e["ev"] in ("Config", "Teardown"):
            continue
        a = e.get("a", e["ev"])
        srv = {tuple(w[:4]) for w in e["srv"] if w[4] == "serve" and not w[5]}
        cli = {tuple(k[:4]) for k in e["cli"] if k[4] == "run" and not k[5]}
        for w in sorted(srv - prev_s):
            origin, server, t, s = w
            if a == "Reconcile" and e.get("i") == server:
                cause = "sender-pruned-stream-kept"
            elif a == "SrvExit":
                cause = "unregister-clobbers-successor"
            elif (t, s) in out:
                cause = "duplicate-stream"
            else:
                cause = "sender-unlisted-after-" + a
            out.setdefault((t, s), []).append((idx, cause))
        for k in sorted(cli - prev_c):
            client, peer, t, s = k
            if a == "CliExit":
                cause = "receiver-cleanup-clobbers-successor"
            elif k in was_opening:
                cause = "reopened-while-opening"
            elif (t, s) in out:
                cause = "duplicate-stream"
            else:
                cause = "receiver-unlisted-after-" + a
            out.setdefault((t, s), []).append((idx, cause))
        prev_s, prev_c = srv, cli
        for x in e["recv"]:
            k = tuple(x[:4])
            if not x[4]:
                was_opening.add(k)
            elif k not in cli:
                was_opening.discard(k)
    return out


def _attribute(run, idx, clause, t, s, roots):
    e = run[idx]
    if clause == "extra":
        for x in e["recv"]:
            if x[2] == t and x[3] == s and _desired_other_peer(e, x, "recv"):
                return "stale-peer-stream-kept"
        for x in e["send"]:
            if x[2] == t and x[3] == s and _desired_other_peer(e, x, "send"):
                return "stale-peer-stream-kept"
        return "not-desired-not-pruned"
    if clause in ("orphan", "missing", "unrouted", "dup", "unhealthy", "lost"):
        cands = [(i, cz) for (i, cz) in roots.get((t, s), []) if i <= idx]
        prim = [x for x in cands if x[1] != "duplicate-stream"]
        if prim:
            return sorted(prim)[0][1]
        if cands:
            return "duplicate-stream"
        # the reverse pair of a stream shares nothing with it; a missing entry without any stream end outside a table
        return "unexplained"
    if clause == "spin":
        return "pruned-receiver-waits-for-local-channel"
    return clause


def run_extra(c):
    prof = PROFILES["thorough" if c.tier == "thorough" else "quick"]
    _load_known(c)
    c.assumptions += [
        "IntraProxy: the harness is the gossip and the network between 2-3 real intraProxyManagers connected by real gRPC over loopback: "
        "remote views are set with MergeRemoteState / NotifyLeave, reconciliation passes are single calls of ReconcilePeerStreams (the 1 s "
        "timer loop is not started), the two cleanup steps of a stream end are released by the schedule",
        "IntraProxy: streams of one client connection reach the peer's handler in the order they were created; a shard has at most one "
        "owner in a view (ownership conflicts are covered by spec/Gossip)",
    ]
    cov = {}
    # ---- design
    design = {}
    for cfg, tmo, expect_ok in ([] if os.environ.get("IP_SKIP_DESIGN") else prof["design"]):     # (development switch)
        r = c.tlc(MODULE, "IntraProxy", cfg, workers=min(12, NCPU), timeout=tmo, name="ip-design-" + cfg[:-4])
        design[cfg] = {"distinct": r.distinct, "generated": r.generated, "ok": r.ok, "violated": r.violated, "wall_s": round(r.wall, 1)}
        if expect_ok:
            if r.violated:
                raise Broken("the repaired IntraProxy design violates %s in %s" % (r.violated, cfg))
            if not r.ok:
                raise Broken("TLC did not complete on IntraProxy/%s: %s" % (cfg, r.error_text[-600:]))
        elif cfg == "ip_ackdrop.cfg":
            # vacuity guard: the variant that drops an ack silently at an owner without a local ack channel must break NoSilentLoss
            if "NoSilentLoss" not in r.violated:
                raise Broken("vacuity guard: IntraProxy/ip_ackdrop.cfg (AckDropSilently) does not violate NoSilentLoss: %s" % r.violated)
        else:
            if r.violated:
                c.notes.append("IntraProxy design-level counterexample (pinned model, %s): %s" % (cfg, r.violated))
            else:
                c.notes.append("IntraProxy pinned model %s: no counterexample within the bound" % cfg)
    cov["design"] = design
    # ---- behaviours
    scheds = _constructed()
    nconstructed = len(scheds)
    gen = []
    for cfg, inst, num, depth in prof["gen"]:
        seen = {}

        def on_line(line, seen=seen):
            try:
                h = json.loads(line)
                if isinstance(h, str):
                    h = json.loads(h)
            except ValueError:
                return
            # TLC prints every candidate last step of a simulated behaviour: keep one behaviour per common prefix
            key = json.dumps(h[:-1], sort_keys=True)
            seen.setdefault(key, h)
        c.tlc(MODULE, "IntraProxySim", cfg, workers=8, simulate="num=%d" % num, depth=depth, seed=c.seed, timeout=600,
              line_cb=on_line, name="ip-gen-" + cfg[:-4])
        for k in sorted(seen):
            gen.append({"id": "%s-%d" % (cfg[:-4], len(gen)), "inst": inst, "cmds": seen[k]})
    if not gen:
        raise Broken("IntraProxySim generated no behaviours")
    ngen = len(gen)
    if len(gen) > prof["limit"]:
        gen = random.Random(c.seed).sample(gen, prof["limit"])
    scheds += gen
    binpath = c.go_test_build("proxy", HARNESS, name="intraproxy")
    nshard = min(NCPU, max(2, len(scheds) // 8))
    files = []
    order = list(range(len(scheds)))
    for i in range(nshard):
        p = os.path.join(c.scratch, "ip-in-%d.ndjson" % i)
        with open(p, "w") as f:
            for k in order[i::nshard]:
                f.write(json.dumps(scheds[k]) + "\n")
        files.append(p)
    res = c.run_shards(binpath, "^TestVerifIntraProxySchedules$", files, os.path.join(c.scratch, "ip-out"), timeout=540)
    events = []
    for rc, out, outp in res:
        if rc != 0 or not os.path.exists(outp):
            if c.crash_verdict(MODULE, rc, outp):
                continue
            raise Broken("IntraProxy harness shard failed rc=%s: %s" % (rc, out[-1500:]))
        for line in open(outp):
            events.append(json.loads(line))
    if not events:
        raise Broken("IntraProxy harness produced no events")
    # ---- monitor
    ro = c.tlc(MODULE, "IntraProxyObs", "obs.cfg", workers=1, timeout=900,
               files={"trace.ndjson": "\n".join(json.dumps(e) for e in events) + "\n"}, name="ip-obs")
    text = open(ro.out).read()
    m = re.search(r'<<\s*"OBS_VIOLATIONS",\s*(\{.*?\})\s*>>\s*\n<<\s*"OBS_TRACE_LEN"', text, re.S)
    if not m or not ro.ok:
        raise Broken("IntraProxyObs did not report: " + ro.error_text[-1200:])
    runs, run_of = [], []
    for e in events:
        if e["ev"] == "Config":
            runs.append([])
        if not runs:          # the Teardown record of an empty harness
            run_of.append((0, 0))
            continue
        runs[-1].append(e)
        run_of.append((len(runs) - 1, len(runs[-1]) - 1))
    roots_of = {}
    by_sig = {}
    bad_runs = set()
    for g in OBS_RE.finditer(m.group(1)):
        ln, clause, t, s = int(g.group(1)), g.group(2), int(g.group(3)), int(g.group(4))
        ri, idx = run_of[ln - 1]
        bad_runs.add(ri)
        if ri not in roots_of:
            roots_of[ri] = _roots(runs[ri])
        cause = _attribute(runs[ri], idx, clause, t, s, roots_of[ri])
        by_sig.setdefault((clause, cause), []).append((ri, idx, t, s))
    causes = {}
    for (clause, cause), hits in sorted(by_sig.items()):
        causes["%s/%s" % (clause, cause)] = len(hits)
        hits.sort(key=lambda h: (len(runs[h[0]]), h[0]))      # the shortest run first
        ri, idx, t, s = hits[0]
        run = runs[ri]
        e = run[idx]
        what = "IntraProxy %s (%s) pair (%d,%d) at %s of run %s: %s" % (
            clause, cause, t, s, e.get("a", e["ev"]), run[0].get("id"),
            json.dumps({k: e[k] for k in ("recv", "send", "cli", "srv", "result", "owner", "unsettled") if k in e})[:420])
        c.violation({"module": MODULE, "clause": clause, "cause": cause}, what,
                    {"kind": "intraproxy-trace", "clause": clause, "cause": cause, "pair": [t, s], "event": idx,
                     "schedule": next((x for x in scheds if x["id"] == run[0].get("id")), None), "trace": run})
    acts, unreal, slow = {}, 0, 0
    for r in runs:
        for e in r:
            if e["ev"] == "Step":
                acts[e["a"]] = acts.get(e["a"], 0) + 1
                if not e.get("ok", True):
                    unreal += 1
                if e.get("ms", 0) > 1500:
                    slow += 1
    nsteps = sum(acts.values())
    if unreal > 0.25 * max(1, nsteps):
        raise Broken("IntraProxy: %d of %d commands could not be realised on the real code" % (unreal, nsteps))
    cov.update({
        "schedules_replayed": len(runs), "constructed": nconstructed, "generated_distinct": ngen, "events_validated": len(events),
        "steps_by_action": acts, "unrealised_commands": unreal, "slow_handoffs": slow,
        "runs_with_violation": len(bad_runs), "violation_causes": causes,
        "handoffs_under_backpressure": sum(1 for r in runs for e in r if e["ev"] == "Step" and e.get("stalled")),
        "streams_opened": sum(1 for r in runs for e in r if e["ev"] == "Quiet" for _ in e["srv"]),
    })
    c.coverage["intraproxy"] = cov
    return cov
